"""Runtime monitoring machinery for the 20 bycycle properties (see /verif/DESIGN.md)."""
