import argparse
import os
import sys


def main():
    ap = argparse.ArgumentParser(prog='check')
    ap.add_argument('prop')
    ap.add_argument('--tier', default=os.environ.get('VERIF_TIER', 'quick'),
                    choices=['quick', 'thorough'])
    ap.add_argument('--seed', type=int, default=int(os.environ.get('VERIF_SEED', '0') or 0))
    ap.add_argument('--replay', default=None)
    ap.add_argument('--jobs', type=int, default=None)
    a = ap.parse_args()
    from .runner import run_check
    sys.exit(run_check(a.prop.upper(), a.tier, a.seed, a.jobs, a.replay))


main()
