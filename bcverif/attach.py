"""Attachment of monitors and recorders onto the real bycycle functions.

Nothing in /repo is edited: a wrapper is bound over *every* attribute in every loaded ``bycycle*``
module that is the original function object (``from m import f`` bindings included), so nested
calls inside the library hit the monitor as well.  Every monitor counts its evaluations; a
violation is *recorded* (never raised into the code under test) so that results are never changed by
the act of observing them.
"""
import collections
import copy
import functools
import os
import sys
import traceback

REPO = os.environ.get('BCVERIF_REPO', '/repo')
HERE = os.path.dirname(os.path.dirname(os.path.abspath(__file__)))

# The monitors are switched on by this guard (recorded in MANIFEST.hooks.guard).  No code in /repo
# reads it: all instrumentation is applied from outside.
GUARD = 'BYCYCLE_VERIF'
os.environ.setdefault(GUARD, '1')


def import_repo():
    """Import bycycle from /repo's working tree (never from site-packages) and load all modules."""
    if sys.path[0] != REPO:
        sys.path.insert(0, REPO)
    deps = os.path.join(HERE, '.deps')
    if os.path.isdir(deps) and deps not in sys.path:
        sys.path.append(deps)
    import matplotlib
    matplotlib.use('Agg')
    import bycycle
    assert os.path.abspath(bycycle.__file__).startswith(os.path.abspath(REPO) + os.sep), \
        'bycycle imported from %s, not from %s' % (bycycle.__file__, REPO)
    import importlib
    for m in ['bycycle.features', 'bycycle.features.features', 'bycycle.features.shape',
              'bycycle.features.burst', 'bycycle.features.cyclepoints', 'bycycle.cyclepoints',
              'bycycle.cyclepoints.extrema', 'bycycle.cyclepoints.zerox',
              'bycycle.cyclepoints.phase', 'bycycle.burst', 'bycycle.burst.cycle',
              'bycycle.burst.amp', 'bycycle.burst.utils', 'bycycle.burst.dualthresh',
              'bycycle.group', 'bycycle.group.features', 'bycycle.group.utils', 'bycycle.objs',
              'bycycle.objs.fit', 'bycycle.plts', 'bycycle.plts.burst', 'bycycle.plts.cyclepoints',
              'bycycle.plts.features', 'bycycle.utils', 'bycycle.utils.dataframes',
              'bycycle.utils.timeseries', 'bycycle.utils.checks']:
        try:
            importlib.import_module(m)
        except ImportError:
            # a refactor may remove or rename a module; monitors whose target is gone report
            # "not reached" (inconclusive) rather than crash here
            pass
    return bycycle


# ------------------------------------------------------------------------------------------------
# global monitor state

COUNTS = collections.Counter()        # evaluations per monitor / per class
VIOLS = []                            # recorded violations (dicts)
MAX_VIOLS = 200


def count(key, n=1):
    COUNTS[key] += n


def violation(prop, mechanism, message, **detail):
    """Record a violation observed by a monitor."""
    COUNTS['viol:' + prop] += 1
    if len(VIOLS) < MAX_VIOLS:
        VIOLS.append({'property': prop, 'mechanism': mechanism, 'message': message,
                      'detail': detail})


def take_violations():
    out = list(VIOLS)
    del VIOLS[:]
    return out


# ------------------------------------------------------------------------------------------------
# rebinding

_ORIGINALS = {}     # (module, name) -> original function


def original(modname, name):
    """Return the pristine function (as it was before any wrapper was attached)."""
    key = (modname, name)
    if key in _ORIGINALS:
        return _ORIGINALS[key]
    mod = sys.modules.get(modname)
    if mod is None or not hasattr(mod, name):
        return None
    return getattr(mod, name)


def rebind(orig, new, only_modules=None):
    """Replace every binding of ``orig`` in loaded bycycle modules (and classes in them)."""
    n = 0
    for mname, mod in list(sys.modules.items()):
        if mod is None or not (mname == 'bycycle' or mname.startswith('bycycle.')):
            continue
        if mname.startswith('bycycle.tests'):
            continue
        if only_modules is not None and mname not in only_modules:
            continue
        for attr, val in list(vars(mod).items()):
            if val is orig:
                setattr(mod, attr, new)
                n += 1
    return n


def attach(modname, name, make_wrapper, only_modules=None):
    """Wrap function ``name`` defined in ``modname`` with ``make_wrapper(orig)`` everywhere.

    Returns the number of bindings replaced (0 means the target does not exist: the monitor can
    never be reached and the check must say so).
    """
    mod = sys.modules.get(modname)
    if mod is None or not hasattr(mod, name):
        count('attach_missing:%s.%s' % (modname, name))
        return 0
    cur = getattr(mod, name)
    _ORIGINALS.setdefault((modname, name), cur)
    new = make_wrapper(cur)
    if getattr(new, '__wrapped__', None) is None:
        try:
            functools.update_wrapper(new, cur)
        except Exception:
            pass
    n = rebind(cur, new, only_modules)
    count('attached:%s.%s' % (modname, name), n)
    return n


def attach_method(cls, name, make_wrapper):
    cur = cls.__dict__.get(name)
    if cur is None:
        count('attach_missing:%s.%s' % (cls.__name__, name))
        return 0
    new = make_wrapper(cur)
    functools.update_wrapper(new, cur)
    setattr(cls, name, new)
    count('attached:%s.%s' % (cls.__name__, name))
    return 1


def _snap_options(x):
    """Deep copy of option containers (dicts / lists / tuples of them): what the caller passed, not what the callee left."""
    if isinstance(x, (dict, list)):
        try:
            return copy.deepcopy(x)
        except Exception:
            return x
    return x


def post_monitor(name, cond):
    """Build a wrapper factory: after ``orig(*a, **k)`` returns, call ``cond(result, *a, **k)``.

    Option containers among the arguments (dicts, lists) are snapshotted BEFORE the call and the monitor sees the
    snapshot, so a callee that pops or rewrites an option cannot make the reference model follow it.  ``cond``
    records violations itself; exceptions inside the monitor are recorded as monitor errors (never propagated into
    the code under test).  If the original raises, ``cond`` is not evaluated and the exception propagates unchanged.
    """
    def make(orig):
        @functools.wraps(orig)
        def wrapper(*a, **k):
            a2 = tuple(_snap_options(x) for x in a)
            k2 = {kk: _snap_options(v) for kk, v in k.items()}
            result = orig(*a, **k)
            count('eval:' + name)
            try:
                cond(result, *a2, **k2)
            except Exception:      # a bug in the monitor must not masquerade as a verdict
                count('monitor_error:' + name)
                if COUNTS['monitor_error:' + name] <= 3:
                    VIOLS.append({'property': '_monitor', 'mechanism': 'monitor_error:' + name,
                                  'message': traceback.format_exc(limit=6), 'detail': {}})
            return result
        return wrapper
    return make


# ------------------------------------------------------------------------------------------------
# contracts: icontract when available, a small equivalent otherwise

def ensure_with_snapshot(name, capture, cond):
    """Contract in the icontract idiom: ``capture(*a, **k)`` snapshots the pre-state (OLD),
    ``cond(result, OLD, *a, **k)`` is the post-condition.  Conditions *record and return True*.

    icontract's decorators need the wrapped function's argument names; since the conditions here are
    generic (``*a, **k``) the decorator is applied through a thin shim with a fixed signature.  When
    icontract is not installed the built-in wrapper below is used; evidence says which was active.
    """
    try:
        import icontract

        class _Broken(AssertionError):
            pass

        def make(orig):
            def _snap(args, kwargs):
                # pre-state + the option containers as the caller passed them
                return (capture(*args, **kwargs), tuple(_snap_options(x) for x in args),
                        {kk: _snap_options(v) for kk, v in kwargs.items()})

            def _post(args, kwargs, result, OLD):
                count('eval:' + name)
                try:
                    pre, a2, k2 = OLD.pre
                    cond(result, pre, *a2, **k2)
                except Exception:
                    count('monitor_error:' + name)
                    if COUNTS['monitor_error:' + name] <= 3:
                        VIOLS.append({'property': '_monitor',
                                      'mechanism': 'monitor_error:' + name,
                                      'message': traceback.format_exc(limit=6), 'detail': {}})
                return True

            @icontract.snapshot(_snap, name='pre')
            @icontract.ensure(_post, error=_Broken)
            def shim(args, kwargs):
                return orig(*args, **kwargs)

            @functools.wraps(orig)
            def wrapper(*a, **k):
                return shim(a, k)
            return wrapper
        COUNTS['contracts:icontract'] = 1
        return make
    except ImportError:
        COUNTS['contracts:builtin'] = 1

        def make(orig):
            @functools.wraps(orig)
            def wrapper(*a, **k):
                pre = capture(*a, **k)
                a2 = tuple(_snap_options(x) for x in a)
                k2 = {kk: _snap_options(v) for kk, v in k.items()}
                result = orig(*a, **k)
                count('eval:' + name)
                try:
                    cond(result, pre, *a2, **k2)
                except Exception:
                    count('monitor_error:' + name)
                    if COUNTS['monitor_error:' + name] <= 3:
                        VIOLS.append({'property': '_monitor',
                                      'mechanism': 'monitor_error:' + name,
                                      'message': traceback.format_exc(limit=6), 'detail': {}})
                return result
            return wrapper
        return make


# ------------------------------------------------------------------------------------------------
# helpers shared by drivers

def innermost_repo_frame(tb):
    """'file.py:function' of the innermost traceback frame that lies inside /repo/bycycle."""
    best = None
    for fr in traceback.extract_tb(tb):
        fn = os.path.abspath(fr.filename)
        if fn.startswith(os.path.join(os.path.abspath(REPO), 'bycycle') + os.sep):
            best = '%s:%s' % (os.path.relpath(fn, REPO), fr.name)
    return best or 'outside-repo'


def raised_inside(exc, path_fragment):
    """True if the frame that raised ``exc`` lies in a file whose path contains ``path_fragment``."""
    frames = traceback.extract_tb(exc.__traceback__)
    return bool(frames) and path_fragment in frames[-1].filename.replace(os.sep, '/')


def exc_mechanism(exc):
    return '%s@%s' % (type(exc).__name__, innermost_repo_frame(exc.__traceback__))
