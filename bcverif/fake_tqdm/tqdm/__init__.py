"""Minimal stand-in for the optional ``tqdm`` package (not installed in this sandbox) so that the progress-bar
branch of bycycle.group.utils.progress_bar is exercised: it wraps an iterable and yields its items in order."""


class tqdm:
    instances = []

    def __init__(self, iterable=None, desc=None, total=None, dynamic_ncols=False, **kwargs):
        self.iterable = iterable
        self.desc = desc
        self.total = total
        self.n = 0
        tqdm.instances.append(self)

    def __iter__(self):
        for item in self.iterable:
            self.n += 1
            yield item

    def __len__(self):
        return self.total if self.total is not None else len(self.iterable)
