from . import tqdm  # noqa: F401
