"""Workload generators: signals, configurations, option sets.  Everything is seeded."""
import numpy as np

FAMILIES = ['sine', 'asine', 'bursty', 'noise', 'sum', 'chirp', 'quant', 'clip', 'zeroed', 'dc',
            'oscnoise', 'tail', 'plateau']

FS_CHOICES = [100., 128., 250., 500., 1000., 1024., 2000.]


def rng_for(seed, prop, shard, extra=0):
    pid = int(prop[1:]) if prop[1:].isdigit() else sum(map(ord, prop))
    return np.random.default_rng([int(seed), pid, int(shard), int(extra)])


def colored(rng, n, chi=None):
    """1/f^chi noise by spectral shaping, unit variance."""
    chi = rng.uniform(0.5, 1.2) if chi is None else chi
    w = rng.standard_normal(n)
    F = np.fft.rfft(w)
    f = np.arange(len(F), dtype=float)
    f[0] = 1.
    y = np.fft.irfft(F / f ** chi, n)
    return y / (np.std(y) + 1e-12)


def gen_config(rng, small=False, low=0.08):
    """(fs, f_lo, f_hi).  A share ``low`` of the configurations are slow rhythms (band below / around 1 Hz at low sampling
    rates), where lengths given in cycles and lengths given in seconds differ the other way round."""
    if rng.random() < low:
        fs = float(rng.choice([32., 64., 50., 25.]))
        f_lo = float(rng.choice([0.25, 0.5]))
        return fs, f_lo, 3 * f_lo
    if rng.random() < 0.05:
        # a fast rhythm whose upper band edge lies within 1 Hz of the Nyquist frequency (still a valid band)
        fs = float(rng.choice([100., 128.]))
        return fs, float(rng.choice([25., 30.])), fs / 2 - float(rng.choice([0.25, 0.5]))
    fs = float(rng.choice(FS_CHOICES[:5] if small else FS_CHOICES))
    if rng.random() < 0.06:
        fs = float(rng.choice([512.5, 250.5, 199.5, 1000.25]))       # sampling rates need not be whole numbers
    f_lo = float(rng.choice([2, 4, 6, 8, 13, 20]))
    f_hi = f_lo + float(rng.choice([2, 4, 6, 8, 10]))
    if f_hi >= fs / 2:
        f_hi = fs / 2 - 1
    return fs, f_lo, f_hi


def duration(rng, f_lo, base=(1.0, 6.0)):
    """Signal duration in seconds: ``base`` for ordinary bands, stretched for slow rhythms so that several cycles fit."""
    return float(rng.uniform(*base)) * max(1.0, 4.0 / f_lo)


def gen_signal(rng, fs, f_lo, f_hi, n_sec, kind=None):
    """One signal of a named family.  Returns (array float64, family name)."""
    n = int(round(n_sec * fs))
    t = np.arange(n) / fs
    f0 = rng.uniform(f_lo + 0.15 * (f_hi - f_lo), f_hi - 0.15 * (f_hi - f_lo))
    if kind is None:
        kind = str(rng.choice(FAMILIES))
    ph = rng.uniform(0, 2 * np.pi)
    base = np.sin(2 * np.pi * f0 * t + ph)
    if kind == 'sine':
        x = base
    elif kind == 'asine':
        rd = rng.uniform(0.15, 0.85)
        phase = (f0 * t + ph / (2 * np.pi)) % 1.0
        w = np.where(phase < rd, 0.5 * phase / rd, 0.5 + 0.5 * (phase - rd) / (1 - rd))
        x = -np.cos(2 * np.pi * w) + rng.uniform(0, 0.3) * colored(rng, n)
    elif kind == 'bursty':
        env = np.zeros(n)
        per = max(2, int(fs / f0))
        i = int(rng.integers(0, per))      # burst on/offsets fall inside cycles
        while i < n:
            L = int(per * rng.uniform(2, 8))
            if rng.random() < 0.6:
                env[i:i + L] = rng.uniform(0.6, 2.0)
            i += L
        x = base * env + rng.uniform(0.1, 0.5) * colored(rng, n)
    elif kind == 'noise':
        x = colored(rng, n)
    elif kind == 'sum':
        f1 = rng.uniform(f_lo, f_hi)
        x = base + rng.uniform(0.2, 1) * np.sin(2 * np.pi * f1 * t + rng.uniform(0, 6)) \
            + 0.5 * np.sin(2 * np.pi * 3.3 * f0 * t)
    elif kind == 'chirp':
        fa, fb = sorted(rng.uniform(f_lo, f_hi, 2))
        x = np.sin(2 * np.pi * (fa * t + 0.5 * (fb - fa) * t ** 2 / max(t[-1], 1e-9)) + ph)
    elif kind == 'quant':
        x = base + rng.uniform(0.2, 0.6) * colored(rng, n)
        q = float(rng.choice([2, 3, 4, 8]))
        x = np.round(x * q) / q
    elif kind == 'clip':
        x = base + 0.2 * colored(rng, n)
        c = rng.uniform(0.3, 0.9)
        x = np.clip(x, -c, c)
    elif kind == 'zeroed':
        x = base + 0.2 * colored(rng, n)
        a = int(rng.integers(0, max(1, n // 2)))
        b = a + int(rng.integers(max(1, n // 10), max(2, n // 2)))
        x[a:b] = 0
    elif kind == 'dc':
        x = base + 0.3 * colored(rng, n) + rng.choice([-1, 1]) * rng.uniform(2, 50)
    elif kind == 'tail':
        # adversarial tail: ends on a flank so that an extremum lands on the last samples
        ncyc = np.floor(f0 * t[-1])
        frac = rng.choice([0.0, 0.25, 0.5, 0.75]) + rng.uniform(-0.02, 0.02)
        f_adj = (ncyc + frac) / max(t[-1], 1e-9)
        f_adj = min(max(f_adj, f_lo), f_hi)
        x = np.cos(2 * np.pi * f_adj * t) * rng.choice([-1, 1]) + rng.uniform(0, 0.15) * colored(rng, n)
    elif kind == 'plateau':
        # integer valued, long plateaus: ties at maxima and at the half height
        x = np.round(2 * base + 0.7 * colored(rng, n))
    else:  # oscnoise
        x = base + rng.uniform(0.1, 1.5) * colored(rng, n)
    r = rng.random()
    if r < 0.4:
        x = x * (2.0 ** float(rng.integers(-10, 11)) if rng.random() < 0.5
                 else 10.0 ** float(rng.integers(-3, 4)))
    elif r < 0.46:
        x = x * 2.0 ** float(rng.choice([-1, 1]) * rng.integers(28, 50))      # very small / large units (e.g. tesla)
    if r >= 0.46 and rng.random() < 0.07:
        # raw A/D counts of a narrow integer type; the swing is a sizeable part of the type's range (0.3 / 0.8 of it) or exceeds
        # it (1.2: the recording saturates at the rails).  Differences and negations of such values do not fit the type.
        x = np.asarray(x, dtype=float)
        x = x - (np.max(x) + np.min(x)) / 2.0
        x = x / (np.max(np.abs(x)) + 1e-300)
        dt = [np.int16, np.uint16, np.int8, np.uint8, np.int32][int(rng.integers(0, 5))]
        info = np.iinfo(dt)
        half = (float(info.max) - float(info.min)) / 2.0
        mid = np.ceil((float(info.max) + float(info.min)) / 2.0)
        y = np.clip(np.round(mid + x * half * float(rng.choice([0.3, 0.8, 1.2]))), info.min, info.max).astype(dt)
        return np.ascontiguousarray(y), kind + '+' + np.dtype(dt).name
    if kind == 'plateau' and r >= 0.46 and rng.random() < 0.5:
        # integer-typed samples (raw A/D counts): same values, dtype int64
        return np.ascontiguousarray(np.round(x).astype(np.int64)), kind + '+int'
    return np.ascontiguousarray(x, dtype=float), kind


def gen_find_extrema_kwargs(rng, fs, f_lo, allow_nseconds=True, allow_none=True):
    """Documented find_extrema options for compute_features (first_extrema excluded there)."""
    r = rng.random()
    if allow_none and r < 0.2:
        return None
    kw = {}
    r = rng.random()
    if r < 0.55:
        kw['filter_kwargs'] = {'n_cycles': int(rng.choice([2, 3, 4, 5, 7]))}
    elif r < 0.75 and allow_nseconds:
        kw['filter_kwargs'] = {'n_seconds': float(rng.choice([2, 3, 4])) / f_lo}
        if rng.random() < 0.25:
            kw['filter_kwargs']['n_cycles'] = None          # "not given", written out
    elif r < 0.82:
        kw['filter_kwargs'] = None                          # the documented default of find_extrema, written out
    if rng.random() < 0.6:
        kw['boundary'] = int(rng.choice([0, 1, 5, 7, int(fs / f_lo)]))
        if rng.random() < 0.2:
            kw['boundary'] = float(kw['boundary'])          # a whole number of samples that happens to be float-typed (np.ceil(...), 2e2)
    if rng.random() < 0.3:
        kw['pad'] = bool(rng.random() < 0.5)
    return kw


def boundary_on_extremum(rng, sig, fs, f_range, filter_kwargs=None, pad=True):
    """A boundary value that coincides exactly with an extremum index (or with len - index), so that
    the strictness of the boundary rule is exercised.  None if no suitable extremum exists."""
    from . import monitors
    try:
        p, t, info = monitors.documented_extrema(sig, fs, f_range, 0, None, filter_kwargs, 'bandpass', pad)
    except Exception:
        return None
    n = len(sig)
    cands = [v for v in (p or []) + (t or []) if 0 <= v < n // 4] + \
            [n - v for v in (p or []) + (t or []) if v > n - n // 4]
    cands = [c for c in cands if 0 <= c < n // 3]
    if not cands:
        return None
    return int(cands[int(rng.integers(0, len(cands)))])


def boundary_leaving_rows(sig, fs, f_range, filter_kwargs, pad, rows, per):
    """A boundary after which the peak-first reference table has exactly ``rows`` rows (None if none is found)."""
    from . import monitors
    n = len(sig)
    b = n // 2
    for _ in range(24):
        b = int(b - max(1, per / 4))
        if b <= 0:
            return None
        try:
            p, t, info = monitors.documented_extrema(sig, fs, f_range, b, 'peak', filter_kwargs, 'bandpass', pad)
        except Exception:
            return None
        if p is not None and len(p) == len(t) and len(t) - 1 == rows:
            return b
        if p is not None and len(t) - 1 > rows:
            return None
    return None


def gen_thresholds_cycles(rng, full=True):
    thr = dict(amp_fraction_threshold=float(rng.choice([0, .1, .2, .5])),
               amp_consistency_threshold=float(rng.choice([0, .3, .5, .8])),
               period_consistency_threshold=float(rng.choice([0, .3, .5, .8])),
               monotonicity_threshold=float(rng.choice([0, .5, .8, 1.0])),
               min_n_cycles=int(rng.choice([0, 1, 2, 3, 5])))
    if not full:
        for k in list(thr):
            if rng.random() < 0.35:
                del thr[k]
    return thr


def gen_amp_options(rng, f_lo):
    """(threshold_kwargs, burst_kwargs) for the amplitude method; 4 routing cases of min_n_cycles."""
    thr = dict(burst_fraction_threshold=float(rng.choice([0, .3, .5, .8, 1.0])))
    if rng.random() < 0.15:
        del thr['burst_fraction_threshold']
    bk = {}
    route = int(rng.integers(0, 4))
    if route in (1, 3):
        thr['min_n_cycles'] = int(rng.choice([1, 2, 3, 5]))
        if rng.random() < 0.15:
            thr['min_n_cycles'] = float(rng.choice([2.4, 2.5, 3.5]))          # any value >= 0 is legal, also a fractional one
    if route in (2, 3):
        bk['min_n_cycles'] = int(rng.choice([1, 2, 4]))
        if rng.random() < 0.15:
            bk['min_n_cycles'] = float(rng.choice([1.5, 2.4, 2.5]))
    if rng.random() < 0.5:
        bk['amp_threshes'] = (float(rng.choice([.5, 1])), float(rng.choice([1.5, 2, 3])))
    if rng.random() < 0.15:
        bk['min_burst_duration'] = float(rng.choice([1, 2, 3])) / f_lo
    if rng.random() < 0.2:
        bk['filter_kwargs'] = {'n_cycles': int(rng.choice([3, 5]))}
    use_bk = bk if (bk or rng.random() < 0.5) else None
    return thr, use_bk, route


def gen_pipeline_case(rng, families=None, methods=('cycles', 'amp'), nsec=(1.0, 6.0),
                      small=False, low=0.08):
    """A full compute_features case (materialised)."""
    fs, lo, hi = gen_config(rng, small=small, low=low)
    kind = None if families is None else str(rng.choice(families))
    sig, kind = gen_signal(rng, fs, lo, hi, duration(rng, lo, nsec), kind)
    center = str(rng.choice(['peak', 'trough']))
    method = str(rng.choice(list(methods)))
    fek = gen_find_extrema_kwargs(rng, fs, lo)
    if fek is not None and rng.random() < 0.25:
        b = boundary_on_extremum(rng, sig if center == 'peak' else -sig, fs, (lo, hi), fek.get('filter_kwargs'),
                                 fek.get('pad', True))
        if b is not None:
            fek['boundary'] = b
            kind = kind + '+b'
    if rng.random() < 0.06:
        # a large (legal) boundary that leaves only one to three complete cycles in the middle of the recording
        per = fs / (0.5 * (lo + hi))
        fek = dict(fek or {}, boundary=max(0, int(len(sig) / 2 - float(rng.choice([0.8, 1.3, 2.2, 3.1])) * per)))
        kind = kind + '+few_cycles_left'
        want = int(rng.choice([1, 1, 2]))
        b = boundary_leaving_rows(sig if center == 'peak' else -np.asarray(sig, dtype=float), fs, (lo, hi), fek.get('filter_kwargs'),
                                  fek.get('pad', True), want, per)
        if b is not None:
            fek['boundary'] = b
            kind = kind + '+exactly_%d' % want
    route = None
    if method == 'cycles':
        thr = gen_thresholds_cycles(rng, full=rng.random() < 0.7)
        bk = None
        if rng.random() < 0.2:
            # burst options left over from an amplitude-method analysis: they play no role in the consistency method
            bk = {'min_n_cycles': int(rng.choice([1, 2, 4, 6]))}
            if rng.random() < 0.5:
                bk['amp_threshes'] = (1.0, 2.0)
            kind = kind + '+amp_options_with_cycles_method'
        if rng.random() < 0.1:
            thr = None
    else:
        thr, bk, route = gen_amp_options(rng, lo)
        if rng.random() < 0.3 and families is None:
            # a bursty rhythm near the lower band edge, whole-cycle criterion (fraction 1): the sample-wise detector keeps episodes
            # of about min_n_cycles periods of f_lo, the fully marked cycles inside them form runs of min_n_cycles - 1 or - 2
            # cycles, which the run filter has to clear
            sig, kind = gen_signal(rng, fs, lo, lo + 0.3 * (hi - lo), duration(rng, lo, (3.0, 6.0)), 'bursty')
            thr['burst_fraction_threshold'] = 1.0
            thr['min_n_cycles'] = int(rng.choice([4, 5, 6]))
            if bk:
                bk.pop('min_n_cycles', None)
                bk.pop('min_burst_duration', None)
            route = 1
            kind = kind + '+short_runs'
        if bk is not None and rng.random() < 0.12:
            # options written for compute_burst_features (which needs these keys) on another recording / band, re-used here:
            # the sampling rate and band of THIS call are its own arguments
            bk['fs'] = fs * 2
            bk['f_range'] = (lo + 1.0, hi + 1.0)
            kind = kind + '+stale_fs_keys'
    share_filter = False
    if method == 'amp' and rng.random() < 0.15:
        # one filter-options dict written once and handed to both stages (extrema filter and amplitude detector)
        filt = {'n_cycles': int(rng.choice([4, 5, 7]))}
        fek = dict(fek or {}, filter_kwargs=dict(filt))
        bk = dict(bk or {}, filter_kwargs=dict(filt))
        share_filter = True
        kind = kind + '+one_filter_dict_for_both_stages'
    view = [None, None, None, None, None, 'subclass', 'strided', 'readonly'][int(rng.integers(0, 8))]
    return dict(sig=sig, sig_view=view, fs=fs, f_range=(lo, hi), center_extrema=center, burst_method=method,
                burst_kwargs=bk, threshold_kwargs=thr, find_extrema_kwargs=fek,
                return_samples=bool(rng.random() < 0.8), family=kind, route=route, share_filter_dict=share_filter,
                obj_refit=[None, 'attribute', 'buffer'][int(rng.integers(0, 3))],
                arg_types=[None, None, None, 'numpy', 'ints', 'mixed'][int(rng.integers(0, 6))],
                buffer_history=bool(rng.random() < 0.15))
