"""Monitors and recorders on the single-signal pipeline (properties C01-C08).

Every monitor is a post-condition evaluated on *every* call the workload causes, nested ones
included.  Violations are recorded through attach.violation(property, mechanism, message).
"""
import copy
import inspect
import math

import numpy as np

from . import attach, refs
from .attach import count, violation

REC = {}          # recorder state: last observed calls of the hooked dependencies
_SIGS = {}


def real(x):
    """The samples as real numbers: the reference models work in float64; integer-typed recordings (raw A/D counts of any
    width, signed or unsigned) are read as the numbers they denote, so that no reference computation wraps around."""
    x = np.asarray(x)
    return x.astype(float) if x.dtype.kind in 'iub' else x



def bind(orig, a, k):
    """Arguments of a call as a dict with defaults applied."""
    f = orig
    while hasattr(f, '__wrapped__'):
        f = f.__wrapped__
    sig = _SIGS.get(f)
    if sig is None:
        sig = _SIGS[f] = inspect.signature(f)
    ba = sig.bind(*a, **k)
    ba.apply_defaults()
    d = dict(ba.arguments)
    for name, p in sig.parameters.items():
        if p.kind is inspect.Parameter.VAR_KEYWORD and name in d:
            kw = d.pop(name)
            d['**'] = kw
    return d


def as_int_list(x):
    return [int(v) for v in np.asarray(x).tolist()]


# ------------------------------------------------------------------------------------------------
# recorders on the three dependency entry points

def install_recorders():
    import sys
    m = sys.modules.get('bycycle.cyclepoints.extrema')
    if m is not None and hasattr(m, 'filter_signal'):
        def make(orig):
            def rec_filter(sig, fs, pass_type, f_range, *a, **kw):
                out = orig(sig, fs, pass_type, f_range, *a, **kw)
                REC['filter'] = {'in': np.array(sig, copy=True), 'out': np.array(out, copy=True),
                                 'fs': fs, 'pass_type': pass_type, 'f_range': f_range,
                                 'kw': dict(kw), 'extra_args': a}
                count('rec:filter_signal')
                return out
            return rec_filter
        attach.attach('bycycle.cyclepoints.extrema', 'filter_signal', make,
                      only_modules={'bycycle.cyclepoints.extrema'})
    m = sys.modules.get('bycycle.features.shape')
    if m is not None and hasattr(m, 'amp_by_time'):
        def make2(orig):
            def rec_amp(sig, fs, f_range=None, *a, **kw):
                out = orig(sig, fs, f_range, *a, **kw)
                REC['amp'] = {'in': np.array(sig, copy=True), 'out': np.array(out, copy=True),
                              'fs': fs, 'f_range': f_range, 'kw': dict(kw), 'extra_args': a}
                count('rec:amp_by_time')
                return out
            return rec_amp
        attach.attach('bycycle.features.shape', 'amp_by_time', make2,
                      only_modules={'bycycle.features.shape'})
    m = sys.modules.get('bycycle.features.burst')
    if m is not None and hasattr(m, 'detect_bursts_dual_threshold'):
        def make3(orig):
            def rec_dual(sig, fs, dual_thresh, f_range=None, *a, **kw):
                out = orig(sig, fs, dual_thresh, f_range, *a, **kw)
                REC['dual'] = {'in': np.array(sig, copy=True), 'out': np.array(out, copy=True),
                               'fs': fs, 'dual_thresh': dual_thresh, 'f_range': f_range,
                               'kw': dict(kw), 'extra_args': a}
                REC.setdefault('dual_calls', []).append(REC['dual'])
                del REC['dual_calls'][:-4]
                count('rec:detect_bursts_dual_threshold')
                return out
            return rec_dual
        attach.attach('bycycle.features.burst', 'detect_bursts_dual_threshold', make3)


# ------------------------------------------------------------------------------------------------
# independent computation of the documented narrowband extrema

def documented_filter(sig, fs, f_range, filter_kwargs=None, pad=True, pass_type='bandpass'):
    """Band-pass the (zero padded) signal exactly as find_extrema documents it.

    Returns (raw_padded, filtered, offset, filt_len) or raises what neurodsp raises."""
    from neurodsp.filt import filter_signal
    from neurodsp.filt.fir import compute_filter_length
    fk = dict(filter_kwargs or {})
    sig = real(sig)
    off = 0
    n_sec = fk.get('n_seconds', None)
    n_cyc = fk.get('n_cycles', None if n_sec is not None else 3)
    filt_len = compute_filter_length(fs, pass_type, f_range[0], f_range[1], n_seconds=n_sec,
                                     n_cycles=n_cyc)
    raw = sig
    if pad:
        off = int(math.ceil(filt_len / 2))
        raw = np.pad(sig, off, mode='constant')
    filt = filter_signal(raw, fs, pass_type, f_range, remove_edges=False, **fk)
    return raw, filt, off, filt_len


def documented_extrema(sig, fs, f_range, boundary=0, first_extrema='peak', filter_kwargs=None,
                       pass_type='bandpass', pad=True):
    raw, filt, off, filt_len = documented_filter(sig, fs, f_range, filter_kwargs, pad, pass_type)
    p, t, info = refs.ref_find_extrema(raw, filt, off, len(sig), boundary, first_extrema)
    info['filt_len'] = filt_len
    info['finite'] = bool(np.all(np.isfinite(filt)))
    # exact zeros strictly inside the band-passed signal (zeroed stretches): the statement does not
    # say to which half-wave they belong; the other consistent reading is kept as an alternative
    info['alt'] = None
    if np.any(filt[1:-1] == 0):
        ap, at, _ = refs.ref_find_extrema(raw, filt, off, len(sig), boundary, first_extrema,
                                          zero_is_positive=True)
        if (ap, at) != (p, t):
            info['alt'] = (ap, at)
    return p, t, info


def cycles_domain(sig, fs, f_range, center, fek, other_filter_kwargs=()):
    """C01 domain predicate.  Returns (in_domain, reference peaks, troughs, info).

    "Longer than the narrowband filter" is read as longer than every FIR filter the call designs: the
    extrema filter (find_extrema_kwargs), the three-cycle amplitude filter of band_amp and, for the
    amplitude method, the detector's filter (burst_kwargs['filter_kwargs'])."""
    from neurodsp.filt.fir import compute_filter_length
    fek = dict(fek or {})
    fk = fek.get('filter_kwargs')
    if fek == {} or 'filter_kwargs' not in fek:
        fk = None if fek else {'n_cycles': 3}
    s = np.asarray(sig, dtype=float)
    s = -s if center == 'trough' else s
    try:
        p, t, info = documented_extrema(s, fs, f_range, boundary=fek.get('boundary', 0),
                                        first_extrema='peak', filter_kwargs=fk,
                                        pad=fek.get('pad', True),
                                        pass_type=fek.get('pass_type', 'bandpass'))
    except Exception as e:       # filter longer than signal etc.: outside the domain
        return False, None, None, {'why': 'filter:%s' % type(e).__name__}
    if p is None:
        return False, None, None, {'why': 'no-extrema'}
    info['why'] = ''
    longest = info['filt_len']
    for okw in [{'n_cycles': 3}] + [dict(o) for o in other_filter_kwargs if o is not None]:
        try:
            n_sec = okw.get('n_seconds')
            longest = max(longest, compute_filter_length(fs, 'bandpass', f_range[0], f_range[1], n_seconds=n_sec,
                                                         n_cycles=okw.get('n_cycles', None if n_sec is not None else 3)))
        except Exception:
            pass
    info['longest_filter'] = longest
    # "at least three full oscillations" is a statement about the band-passed signal (before the boundary is applied); after the
    # boundary at least one complete cycle (side extremum, centre, side extremum) must remain for a table to exist
    nb = info.get('n_half_waves') or (0, 0)
    ok = min(nb) >= 4 and len(p) >= 2 and len(t) >= 2 and info['finite'] and len(s) > longest
    if not ok:
        info['why'] = 'fewer-than-3-oscillations' if len(s) > longest else 'signal-not-longer-than-a-filter'
    return ok, p, t, info


# ------------------------------------------------------------------------------------------------
# C02 find_extrema

def mon_find_extrema(result, *a, **k):
    orig = attach.original('bycycle.cyclepoints.extrema', 'find_extrema')
    args = bind(orig, a, k)
    sig = real(args['sig'])
    peaks, troughs = result
    peaks, troughs = as_int_list(peaks), as_int_list(troughs)
    try:
        rp, rt, info = documented_extrema(sig, args['fs'], args['f_range'], args['boundary'],
                                          args['first_extrema'], args['filter_kwargs'],
                                          args['pass_type'], args['pad'])
    except Exception as e:
        count('C02:ref_raised:' + type(e).__name__)
        return
    REC['extrema'] = {'ref': (rp, rt), 'got': (peaks, troughs), 'info': info}
    if rp is None:
        count('C02:outside_domain')
        return
    count('C02:windows', info['windows'])
    count('C02:windows_with_ties', info['ties'])
    count('C02:windows_offcentre', info['offcentre'])
    count('C02:dropped_pad_or_boundary', info['dropped_pad_or_boundary'])
    count('C02:first_extrema=%s' % args['first_extrema'])
    if (peaks != rp or troughs != rt) and info.get('alt') is not None and \
            (peaks, troughs) == tuple(info['alt']):
        count('C02:zero_sample_other_convention_accepted')
        return
    if peaks != rp or troughs != rt:
        kind = 'peaks' if peaks != rp else 'troughs'
        got, ref = (peaks, rp) if peaks != rp else (troughs, rt)
        i = refs.first_diff(got, ref)
        mech = 'extrema-differ-from-halfwave-reference'
        # localise with the recorder when it saw the call
        r = REC.get('filter')
        why = ''
        if r is not None:
            if r['kw'].get('remove_edges', True) is not False:
                why = ' (filter called with remove_edges=%r)' % r['kw'].get('remove_edges', True)
            exp_len = len(sig) + 2 * (int(math.ceil(info['filt_len'] / 2)) if args['pad'] else 0)
            if len(r['in']) != exp_len:
                why += ' (filter input length %d, documented %d)' % (len(r['in']), exp_len)
        violation('C02', mech, '%s: got %s..., reference %s... first difference at position %s%s; '
                  'n=%d/%d, boundary=%s first_extrema=%s pad=%s'
                  % (kind, got[max(0, (i or 0) - 1):(i or 0) + 3], ref[max(0, (i or 0) - 1):(i or 0) + 3], i, why,
                     len(got), len(ref), args['boundary'], args['first_extrema'], args['pad']))
        return
    b = args['boundary']
    n = len(sig)
    for v in peaks + troughs:
        if v <= b or v >= n - b:
            violation('C02', 'extremum-inside-boundary', 'index %d with boundary %d, len %d' % (v, b, n))
            return
    if args['first_extrema'] == 'peak' and peaks and troughs:
        if not (peaks[0] < troughs[0] and len(peaks) == len(troughs)):
            violation('C02', 'first-extrema-rule', 'peak first requested: %s %s' % (peaks[:2], troughs[:2]))
    if args['first_extrema'] == 'trough' and peaks and troughs:
        if not (troughs[0] < peaks[0] and len(peaks) == len(troughs)):
            violation('C02', 'first-extrema-rule', 'trough first requested: %s %s' % (peaks[:2], troughs[:2]))


# ------------------------------------------------------------------------------------------------
# C03 find_zerox

def mon_find_zerox(result, pre, *a, **k):
    orig = attach.original('bycycle.cyclepoints.zerox', 'find_zerox')
    args = bind(orig, a, k)
    sig = real(args['sig'])
    peaks, troughs = as_int_list(args['peaks']), as_int_list(args['troughs'])
    rises, decays = as_int_list(result[0]), as_int_list(result[1])
    ext = sorted([(p, 'p') for p in peaks] + [(t, 't') for t in troughs])
    for (x, kx), (y, ky) in zip(ext[:-1], ext[1:]):
        if kx == ky or x == y:
            count('C03:not_alternating_input')
            return
    rr, rd, branches, flanks = refs.ref_find_zerox(sig, peaks, troughs)
    for br in branches:
        count('C03:branch:' + br)
    count('C03:flanks', len(flanks))
    if len(rises) != len(rr) or len(decays) != len(rd):
        violation('C03', 'midpoint-count', 'rises %d (reference %d), decays %d (reference %d)'
                  % (len(rises), len(rr), len(decays), len(rd)),
                  peaks=peaks[:6], troughs=troughs[:6])
        return
    ri = di = 0
    for (fa, fb, kind), br in zip(flanks, branches):
        if kind == 'rise':
            got, ref = rises[ri], rr[ri]
            ri += 1
        else:
            got, ref = decays[di], rd[di]
            di += 1
        if ref is None:
            # open case: any sample of the flank is accepted
            if not (fa <= got <= fb):
                violation('C03', 'midpoint-outside-flank', '%s flank [%d,%d]: %d' % (kind, fa, fb, got))
                return
            continue
        if got != ref:
            seg = [float(v) for v in sig[fa:fb + 1]]
            if br.endswith('+tie'):
                # a sample exactly on the half height: the statement does not say on which side it
                # counts; the other consistent reading is accepted (and counted)
                alt, _ = refs.ref_midpoint(sig, fa, fb, kind, equal_is_low=False)
                if alt is None and fa <= got <= fb or alt == got:
                    count('C03:tie_other_convention_accepted')
                    continue
            violation('C03', 'midpoint-differs:%s' % br.split('+')[0],
                      '%s flank [%d,%d] branch %s: got %d, reference %d; segment %s'
                      % (kind, fa, fb, br, got, ref, seg[:24]), segment=seg[:200], kind=kind)
            return


# ------------------------------------------------------------------------------------------------
# C01 structure + C04 shape (on a table with sample columns)

def centre_of(df):
    cols = set(df.columns)
    if 'sample_peak' in cols:
        return 'peak'
    if 'sample_trough' in cols:
        return 'trough'
    return None


def check_structure(df, sig_len, boundary, where):
    """C01 row-wise clauses on a table with sample columns.  Returns True if it could be checked."""
    center = centre_of(df)
    if center is None:
        return False
    side = 'trough' if center == 'peak' else 'peak'
    need = ['sample_last_' + side, 'sample_' + center, 'sample_next_' + side, 'sample_zerox_rise',
            'sample_zerox_decay']
    for c in need:
        if c not in df.columns:
            violation('C01', 'missing-column', '%s: column %s missing' % (where, c))
            return True
    L = as_int_list(df['sample_last_' + side])
    C = as_int_list(df['sample_' + center])
    N = as_int_list(df['sample_next_' + side])
    zr = as_int_list(df['sample_zerox_rise'])
    zd = as_int_list(df['sample_zerox_decay'])
    lzname = 'sample_last_zerox_decay' if center == 'peak' else 'sample_last_zerox_rise'
    lz = as_int_list(df[lzname]) if lzname in df.columns else None
    n = len(L)
    count('C01:rows', n)
    for i in range(n):
        if not (L[i] < C[i] < N[i]):
            violation('C01', 'row-order', '%s row %d: last %d, centre %d, next %d'
                      % (where, i, L[i], C[i], N[i]))
            return True
        first_mid, second_mid = (zr[i], zd[i]) if center == 'peak' else (zd[i], zr[i])
        if not (L[i] <= first_mid <= C[i] and C[i] <= second_mid <= N[i]):
            violation('C01', 'midpoint-outside-flank',
                      '%s row %d (%s-centred): last %d, mid %d, centre %d, mid %d, next %d'
                      % (where, i, center, L[i], first_mid, C[i], second_mid, N[i]))
            return True
        if lz is not None and not (lz[i] <= L[i] and (i == 0 or lz[i] >= C[i - 1])):
            violation('C01', 'midpoint-outside-flank',
                      '%s row %d: previous-flank midpoint %d not before last side %d' % (where, i, lz[i], L[i]))
            return True
        for v in (L[i], C[i], N[i]):
            if v < 0 or v >= sig_len or (boundary is not None and (v <= boundary or v >= sig_len - boundary)):
                violation('C01', 'index-outside-signal-or-boundary',
                          '%s row %d: index %d, len %d, boundary %s' % (where, i, v, sig_len, boundary))
                return True
        if i + 1 < n and N[i] != L[i + 1]:
            violation('C01', 'rows-do-not-tile', '%s rows %d/%d: next %d != last %d'
                      % (where, i, i + 1, N[i], L[i + 1]))
            return True
    return True


def check_rows_against_reference(df, sig, fs, f_range, center, fek, where):
    """One row per cycle: the table's extrema ARE the peak-first alternating half-wave sequence."""
    ok, p, t, info = cycles_domain(sig, fs, f_range, center, fek)
    if p is None:
        count('C01:reference_unavailable')
        return
    side = 'trough' if center == 'peak' else 'peak'
    C = as_int_list(df['sample_' + center])
    L = as_int_list(df['sample_last_' + side])
    N = as_int_list(df['sample_next_' + side])
    exp_rows = max(0, min(len(p), len(t)) - 1)
    count('C01:tables_vs_reference')
    if len(C) != exp_rows:
        violation('C01', 'row-count', '%s: %d rows, %d cycles in the half-wave reference'
                  % (where, len(C), exp_rows))
        return
    if C != p[1:] or L != t[:-1] or N != t[1:]:
        if info.get('alt') is not None:
            ap, at = info['alt']
            if C == ap[1:] and L == at[:-1] and N == at[1:]:
                count('C01:zero_sample_other_convention_accepted')
                return
        for name, got, ref in (('centre', C, p[1:]), ('last side', L, t[:-1]), ('next side', N, t[1:])):
            i = refs.first_diff(got, ref)
            if i is not None:
                violation('C01', 'rows-are-not-the-cycles',
                          '%s: %s extremum of row %d is %s, the half-wave reference has %s (rows %d..: %s, reference %s)'
                          % (where, name, i, got[i] if i < len(got) else None, ref[i] if i < len(ref) else None,
                             max(0, i - 1), got[max(0, i - 1):i + 2], ref[max(0, i - 1):i + 2]))
                return


def check_shape(df, sig, fs, f_range, n_cycles, where, with_band_amp=True):
    """C04: every shape cell equals its documented definition (original signal)."""
    center = centre_of(df)
    if center is None:
        return
    sig = np.asarray(sig)
    recs = df.to_dict('records')
    count('C04:rows', len(recs))
    count('C04:tables:' + center)
    asym = False
    for i, r in enumerate(recs):
        try:
            o = refs.ref_shape_row(r, sig, center)
        except (KeyError, IndexError, ValueError) as e:
            violation('C04', 'row-not-readable', '%s row %d: %r' % (where, i, e))
            return
        if o['time_rise'] != o['time_decay']:
            asym = True
        if o['volt_rise'] < 0 or o['volt_decay'] < 0:
            count('C04:rows_with_inverted_flank')
        for c in refs.SHAPE_COLS:
            if c not in r:
                violation('C04', 'missing-column', '%s: %s' % (where, c))
                return
            ref = o[c]
            if ref is None:
                count('C04:trivial_zero_denominator')
                continue
            got = float(r[c])
            if c in refs.EXACT_SHAPE:
                same = (got == float(ref)) or (math.isnan(got) and math.isnan(float(ref)))
            else:
                same = refs.same_float(got, ref)
            if not same:
                violation('C04', 'shape-cell:' + c, '%s row %d (%s-centred) %s: got %r, definition %r'
                          % (where, i, center, c, got, float(ref)))
                return
        if not (0 < float(r['time_rdsym']) < 1):
            violation('C04', 'rdsym-range', '%s row %d time_rdsym=%r' % (where, i, r['time_rdsym']))
            return
        pt = float(r['time_ptsym'])
        if not math.isnan(pt) and not (0 <= pt <= 1):
            violation('C04', 'ptsym-range', '%s row %d time_ptsym=%r' % (where, i, pt))
            return
        if o['period'] != o['time_rise'] + o['time_decay']:
            violation('C04', 'period-sum', '%s row %d' % (where, i))
            return
    if asym:
        count('C04:tables_asymmetric')
    if with_band_amp and 'band_amp' in df.columns and len(recs):
        from neurodsp.timefrequency import amp_by_time
        try:
            amp = amp_by_time(np.asarray(sig, dtype=float), fs, f_range, remove_edges=False,
                              n_cycles=n_cycles)
        except Exception as e:
            count('C04:amp_ref_raised:' + type(e).__name__)
            return
        side = 'trough' if center == 'peak' else 'peak'
        for i, r in enumerate(recs):
            a, b = int(r['sample_last_' + side]), int(r['sample_next_' + side])
            ref = math.fsum(float(v) for v in amp[a:b]) / (b - a) if b > a else float('nan')
            got = float(r['band_amp'])
            if not refs.same_float(got, ref, 1e-11):
                violation('C04', 'shape-cell:band_amp',
                          '%s row %d: band_amp %r, mean analytic amplitude over [%d,%d) = %r'
                          % (where, i, got, a, b, ref))
                return
        count('C04:band_amp_rows', len(recs))


def mon_compute_shape_features(result, *a, **k):
    orig = attach.original('bycycle.features.shape', 'compute_shape_features')
    args = bind(orig, a, k)
    sig = real(args['sig'])
    fek = args['find_extrema_kwargs']
    boundary = (fek or {}).get('boundary', 0)
    REC['shape'] = {'rows': len(result), 'center': args['center_extrema']}
    if centre_of(result) != args['center_extrema']:
        violation('C01', 'centring-columns', 'requested %s, columns say %s'
                  % (args['center_extrema'], centre_of(result)))
        return
    check_structure(result, len(sig), boundary, 'compute_shape_features')
    fek_eff = fek if fek is not None else {'filter_kwargs': {'n_cycles': args['n_cycles']}}
    check_rows_against_reference(result, sig, args['fs'], args['f_range'], args['center_extrema'],
                                 fek_eff, 'compute_shape_features')
    check_shape(result, sig, args['fs'], args['f_range'], args['n_cycles'], 'compute_shape_features')


# ------------------------------------------------------------------------------------------------
# C05 burst features

def _cmp_feature(prop, name, got, ref, where):
    got = [float(v) for v in np.asarray(got, dtype=float).tolist()]
    if len(got) != len(ref):
        violation(prop, 'feature-length:' + name, '%s: %d values for %d cycles' % (where, len(got), len(ref)))
        return False
    for i, (g, r) in enumerate(zip(got, ref)):
        if r is None:
            count('C05:trivial_zero_denominator')
            continue
        if not refs.same_float(g, r):
            violation(prop, 'feature-cell:' + name, '%s cycle %d of %d: got %r, definition %r'
                      % (where, i, len(ref), g, r), index=i)
            return False
    return True


def mon_amp_fraction(result, *a, **k):
    df = a[0] if a else k['df_shape_features']
    va = [float(v) for v in df['volt_amp'].to_numpy().tolist()]
    n = len(va)
    ref = [r / n for r in refs.avg_rank(va)] if n else []
    if len(set(va)) < len(va):
        count('C05:tables_with_rank_ties')
    _cmp_feature('C05', 'amp_fraction', result, ref, 'compute_amp_fraction')


def mon_amp_consistency(result, *a, **k):
    orig = attach.original('bycycle.features.burst', 'compute_amp_consistency')
    args = bind(orig, a, k)
    df = args['df_shape_features']
    center = centre_of(df)
    if center is None:
        count('C05:centring_unknown')
        return
    vr = [float(v) for v in df['volt_rise'].to_numpy().tolist()]
    vd = [float(v) for v in df['volt_decay'].to_numpy().tolist()]
    ref = refs.ref_amp_consistency(vr, vd, center, args['direction'])
    count('C05:amp_consistency:%s:%s' % (center, args['direction']))
    if any((r is not None and r == 0.0) for r in ref[1:-1]):
        count('C05:clamped_or_zero_cells')
    if _cmp_feature('C05', 'amp_consistency', result, ref, 'compute_amp_consistency[%s,%s]'
                    % (center, args['direction'])):
        got = np.asarray(result, dtype=float)
        for i in range(1, len(vr) - 1):
            if ref[i] is not None and min(vr[i - 1:i + 2] + vd[i - 1:i + 2]) > 0 and not (0 <= got[i] <= 1):
                violation('C05', 'range:amp_consistency', 'cycle %d: %r' % (i, got[i]))
                return


def mon_period_consistency(result, *a, **k):
    orig = attach.original('bycycle.features.burst', 'compute_period_consistency')
    args = bind(orig, a, k)
    df = args['df_shape_features']
    per = [float(v) for v in df['period'].to_numpy().tolist()]
    ref = refs.ref_period_consistency(per, args['direction'])
    count('C05:period_consistency:%s' % args['direction'])
    _cmp_feature('C05', 'period_consistency', result, ref, 'compute_period_consistency[%s]' % args['direction'])


def mon_monotonicity(result, *a, **k):
    orig = attach.original('bycycle.features.burst', 'compute_monotonicity')
    args = bind(orig, a, k)
    df, sig = args['df_samples'], real(args['sig'])
    center = centre_of(df)
    if center is None:
        count('C05:centring_unknown')
        return
    side = 'trough' if center == 'peak' else 'peak'
    ref = []
    for r in df.to_dict('records'):
        ref.append(refs.ref_monotonicity_row(sig, int(r['sample_last_' + side]), int(r['sample_' + center]),
                                             int(r['sample_next_' + side]), center))
    count('C05:monotonicity:' + center)
    if any(r is not None and 0 < r < 1 for r in ref):
        count('C05:tables_with_nonmonotone_steps')
    if _cmp_feature('C05', 'monotonicity', result, ref, 'compute_monotonicity[%s]' % center):
        for i, g in enumerate(np.asarray(result, dtype=float)):
            if ref[i] is not None and not (0 <= g <= 1):
                violation('C05', 'range:monotonicity', 'cycle %d: %r' % (i, g))
                return


# ------------------------------------------------------------------------------------------------
# C07 burst fraction / amplitude labels

def documented_mask(sig, fs, f_range, amp_threshes, min_n_cycles, min_burst_duration, filter_kwargs):
    from neurodsp.burst import detect_bursts_dual_threshold
    fk = dict(filter_kwargs or {})
    m = None if min_burst_duration is not None else min_n_cycles
    return detect_bursts_dual_threshold(np.asarray(sig), fs, amp_threshes, f_range, min_n_cycles=m,
                                        min_burst_duration=min_burst_duration, **fk)


def mon_burst_fraction(result, *a, **k):
    orig = attach.original('bycycle.features.burst', 'compute_burst_fraction')
    args = bind(orig, a, k)
    df, sig = args['df_samples'], real(args['sig'])
    center = centre_of(df)
    if center is None:
        count('C07:centring_unknown')
        return
    side = 'trough' if center == 'peak' else 'peak'
    try:
        mask = documented_mask(sig, args['fs'], args['f_range'], args['amp_threshes'],
                               args['min_n_cycles'], args['min_burst_duration'], args['filter_kwargs'])
    except Exception as e:
        count('C07:ref_raised:' + type(e).__name__)
        return
    REC['burst_fraction'] = {'min_n_cycles': args['min_n_cycles'],
                             'min_burst_duration': args['min_burst_duration']}
    ref = refs.ref_burst_fraction(mask, df['sample_last_' + side].to_numpy(),
                                  df['sample_next_' + side].to_numpy())
    got = [float(v) for v in result]
    count('C07:burst_fraction_tables:' + center)
    if any(0 < v < 1 for v in ref):
        count('C07:tables_with_partial_cycles')
    if len(got) != len(ref):
        violation('C07', 'burst-fraction-length', '%d values for %d cycles' % (len(got), len(ref)))
        return
    for i, (g, r) in enumerate(zip(got, ref)):
        # a fraction of samples k / n has one nearest float (count / n, the mean of the marks): the labels compare it with a
        # threshold that it may equal exactly (default 1: "every sample marked"), so a result one ulp off is a different answer
        if g != r:
            violation('C07', 'burst-fraction-cell',
                      'cycle %d (%s-centred): burst_fraction %r, fraction of marked samples over the '
                      'inclusive window %r' % (i, center, g, r))
            return
    # the recorder shows what the sample-wise detector actually received
    r = REC.get('dual')
    if r is not None:
        m_seen = r['kw'].get('min_n_cycles', 'absent')
        exp_m = None if args['min_burst_duration'] is not None else args['min_n_cycles']
        if m_seen != exp_m:
            violation('C07', 'detector-min-n-cycles',
                      'sample-wise detector received min_n_cycles=%r, documented %r' % (m_seen, exp_m))


def mon_detect_bursts_amp(result, *a, **k):
    orig = attach.original('bycycle.burst.amp', 'detect_bursts_amp')
    args = bind(orig, a, k)
    df = result
    bf = [float(v) for v in df['burst_fraction'].to_numpy().tolist()]
    ref, q = refs.ref_labels_amp(bf, args['burst_fraction_threshold'], args['min_n_cycles'])
    got = [bool(v) for v in df['is_burst'].to_numpy().tolist()]
    count('C07:label_tables')
    if any(v == args['burst_fraction_threshold'] for v in bf):
        count('C07:cells_equal_threshold')
    if got != ref:
        i = refs.first_diff(got, ref)
        violation('C07', 'amp-labels', 'cycle %s: is_burst %s, rule %s (fraction %r, threshold %r, m=%r)'
                  % (i, got[i] if i < len(got) else None, ref[i] if i < len(ref) else None,
                     bf[i] if i < len(bf) else None, args['burst_fraction_threshold'], args['min_n_cycles']))


# ------------------------------------------------------------------------------------------------
# C06 consistency labels

def mon_detect_bursts_cycles(result, *a, **k):
    orig = attach.original('bycycle.burst.cycle', 'detect_bursts_cycles')
    args = bind(orig, a, k)
    df = result
    thr = {kk: args[kk] for kk in refs.CYCLE_DEFAULTS}
    cols = [df[c].to_numpy().astype(float).tolist() for c in
            ('amp_fraction', 'amp_consistency', 'period_consistency', 'monotonicity')]
    ref, q = refs.ref_labels_cycles(cols[0], cols[1], cols[2], cols[3], thr)
    got = [bool(v) for v in df['is_burst'].to_numpy().tolist()]
    count('C06:label_tables')
    count('C06:rows', len(got))
    if got != ref:
        i = refs.first_diff(got, ref)
        violation('C06', 'cycle-labels', 'cycle %s of %d: is_burst %s, rule %s; qualifies=%s thresholds=%s'
                  % (i, len(ref), got[i] if i < len(got) else None, ref[i] if i < len(ref) else None,
                     q[max(0, (i or 0) - 3):(i or 0) + 4], thr))


# ------------------------------------------------------------------------------------------------
# C08 minimum-run filter

def cap_min_burst(*a, **k):
    x = a[0] if a else k.get('is_burst')
    return np.array(x, copy=True) if isinstance(x, np.ndarray) else None


def mon_check_min_burst_cycles(result, pre, *a, **k):
    if pre is None:
        return
    orig = attach.original('bycycle.burst.utils', 'check_min_burst_cycles')
    args = bind(orig, a, k)
    m = args['min_n_cycles']
    before = [bool(v) for v in pre.tolist()]
    got = [bool(v) for v in np.asarray(result).tolist()]
    if len(got) != len(before):
        violation('C08', 'length-changed', 'input %d, output %d' % (len(before), len(got)))
        return
    ref = refs.min_run_filter(before, m)
    if got != ref:
        i = refs.first_diff(got, ref)
        kind = 'false-became-true' if (got[i] and not before[i]) else \
            ('long-run-cleared' if ref[i] else 'short-run-kept')
        violation('C08', 'min-run:' + kind, 'm=%r input %s -> output %s, rule %s (first difference at %d)'
                  % (m, ''.join('1' if v else '0' for v in before[:64]),
                     ''.join('1' if v else '0' for v in got[:64]),
                     ''.join('1' if v else '0' for v in ref[:64]), i))


# ------------------------------------------------------------------------------------------------
# compute_features: C01 (table), C04 (final cells), C06/C07 routing

def cap_compute_features(*a, **k):
    orig = attach.original('bycycle.features.features', 'compute_features')
    try:
        args = bind(orig, a, k)
    except TypeError:
        return None
    return {'burst_kwargs': copy.deepcopy(args['burst_kwargs']),
            'threshold_kwargs': copy.deepcopy(args['threshold_kwargs']),
            'find_extrema_kwargs': copy.deepcopy(args['find_extrema_kwargs']),
            'sig': np.array(real(args['sig']), copy=True)}


def mon_compute_features(result, pre, *a, **k):
    if pre is None:
        return
    orig = attach.original('bycycle.features.features', 'compute_features')
    args = bind(orig, a, k)
    sig = pre['sig']
    df = result
    center = args['center_extrema']
    method = args['burst_method']
    fek = pre['find_extrema_kwargs']
    boundary = (fek or {}).get('boundary', 0)
    count('C01:tables:%s:%s:samples=%s' % (center, method, bool(args['return_samples'])))
    has_samples = any(str(c).startswith('sample_') for c in df.columns)
    shape_rows = (REC.get('shape') or {}).get('rows')
    if args['return_samples'] is False:
        if has_samples:
            violation('C01', 'sample-columns-present', 'return_samples=False but sample columns returned')
        if shape_rows is not None and len(df) != shape_rows:
            violation('C01', 'row-count', 'final table %d rows, cycle table %d' % (len(df), shape_rows))
    else:
        if centre_of(df) != center:
            violation('C01', 'centring-columns', 'requested %s, table columns say %s' % (center, centre_of(df)))
            return
        check_structure(df, len(sig), boundary, 'compute_features')
        fek_eff = fek if fek is not None else {'filter_kwargs': {'n_cycles': 3}}
        check_rows_against_reference(df, sig, args['fs'], args['f_range'], center, fek_eff,
                                     'compute_features')
        check_shape(df, sig, args['fs'], args['f_range'], 3, 'compute_features', with_band_amp=True)      # three cycles: the documented band_amp filter of compute_features, whatever the burst options say
    if 'is_burst' not in df.columns:
        violation('C01', 'missing-column', 'is_burst missing from compute_features table')
        return
    got = [bool(v) for v in df['is_burst'].to_numpy().tolist()]
    thr = pre['threshold_kwargs'] if isinstance(pre['threshold_kwargs'], dict) else {}
    if method == 'cycles':
        try:
            cols = [df[c].to_numpy().astype(float).tolist() for c in
                    ('amp_fraction', 'amp_consistency', 'period_consistency', 'monotonicity')]
        except KeyError as e:
            violation('C06', 'missing-column', repr(e))
            return
        ref, q = refs.ref_labels_cycles(cols[0], cols[1], cols[2], cols[3], thr)
        count('C06:routing_tables')
        if got != ref:
            i = refs.first_diff(got, ref)
            violation('C06', 'threshold-routing', 'compute_features(cycles) cycle %s: is_burst %s, rule with '
                      'the caller\'s thresholds %s gives %s' % (i, got[i] if i < len(got) else None, thr,
                                                                 ref[i] if i < len(ref) else None))
    elif method == 'amp':
        bk = pre['burst_kwargs'] if isinstance(pre['burst_kwargs'], dict) else {}
        m_exp = bk.get('min_n_cycles', thr.get('min_n_cycles', 3))
        dur = bk.get('min_burst_duration', None)
        route = ('bk' if 'min_n_cycles' in bk else '') + ('thr' if 'min_n_cycles' in thr else '') or 'default'
        count('C07:routing:' + route + (':duration' if dur is not None else ''))
        if 'burst_fraction' not in df.columns:
            violation('C07', 'missing-column', 'burst_fraction missing')
            return
        bf = [float(v) for v in df['burst_fraction'].to_numpy().tolist()]
        ref, q = refs.ref_labels_amp(bf, thr.get('burst_fraction_threshold', 1), m_exp)
        if got != ref:
            i = refs.first_diff(got, ref)
            violation('C07', 'amp-routing-runfilter',
                      'compute_features(amp) cycle %s: is_burst %s, rule (threshold %r, min_n_cycles %r [%s]) %s'
                      % (i, got[i] if i < len(got) else None, thr.get('burst_fraction_threshold', 1), m_exp,
                         route, ref[i] if i < len(ref) else None))
            return
        if has_samples and centre_of(df) is not None:
            side = 'trough' if centre_of(df) == 'peak' else 'peak'
            try:
                mask = documented_mask(sig, args['fs'], args['f_range'], bk.get('amp_threshes', (1, 2)),
                                       m_exp, dur, bk.get('filter_kwargs'))
            except Exception as e:
                count('C07:ref_raised:' + type(e).__name__)
                return
            refbf = refs.ref_burst_fraction(mask, df['sample_last_' + side].to_numpy(),
                                            df['sample_next_' + side].to_numpy())
            count('C07:routing_tables_with_mask')
            if any(0 < v < 1 for v in refbf) and (any(got) and not all(got)):
                count('C07:routing_nontrivial')
            for i, (g, r) in enumerate(zip(bf, refbf)):
                if not refs.same_float(g, r):
                    violation('C07', 'amp-routing-detector',
                              'compute_features(amp) cycle %d: burst_fraction %r, but the detector run with the '
                              'documented count (min_n_cycles=%r via %s, duration=%r) gives %r'
                              % (i, g, m_exp, route, dur, r))
                    return


# ------------------------------------------------------------------------------------------------

_INSTALLED = []


def install_pipeline():
    """Attach all single-signal monitors (idempotent)."""
    if _INSTALLED:
        return
    _INSTALLED.append(1)
    install_recorders()
    A = attach.attach
    A('bycycle.burst.utils', 'check_min_burst_cycles',
      attach.ensure_with_snapshot('check_min_burst_cycles', cap_min_burst, mon_check_min_burst_cycles))
    A('bycycle.cyclepoints.zerox', 'find_zerox',
      attach.ensure_with_snapshot('find_zerox', lambda *a, **k: None, mon_find_zerox))
    A('bycycle.cyclepoints.extrema', 'find_extrema', attach.post_monitor('find_extrema', mon_find_extrema))
    A('bycycle.features.shape', 'compute_shape_features',
      attach.post_monitor('compute_shape_features', mon_compute_shape_features))
    A('bycycle.features.burst', 'compute_amp_fraction', attach.post_monitor('compute_amp_fraction', mon_amp_fraction))
    A('bycycle.features.burst', 'compute_amp_consistency',
      attach.post_monitor('compute_amp_consistency', mon_amp_consistency))
    A('bycycle.features.burst', 'compute_period_consistency',
      attach.post_monitor('compute_period_consistency', mon_period_consistency))
    A('bycycle.features.burst', 'compute_monotonicity', attach.post_monitor('compute_monotonicity', mon_monotonicity))
    A('bycycle.features.burst', 'compute_burst_fraction',
      attach.post_monitor('compute_burst_fraction', mon_burst_fraction))
    A('bycycle.burst.cycle', 'detect_bursts_cycles',
      attach.post_monitor('detect_bursts_cycles', mon_detect_bursts_cycles))
    A('bycycle.burst.amp', 'detect_bursts_amp', attach.post_monitor('detect_bursts_amp', mon_detect_bursts_amp))
    A('bycycle.features.features', 'compute_features',
      attach.ensure_with_snapshot('compute_features', cap_compute_features, mon_compute_features))
