"""Shared driver for the compute_features workloads (C01, C04-C07, C09, C10)."""
import copy

import numpy as np

from . import attach, gen, monitors
from .runner import quiet

OPT_KEYS = ('center_extrema', 'burst_method', 'burst_kwargs', 'threshold_kwargs', 'find_extrema_kwargs',
            'return_samples')


class Recording(np.ndarray):
    """An ndarray subclass, as returned by np.memmap or by containers that attach metadata to a recording."""


def as_view(sig, view):
    """A private copy of the samples, optionally laid out differently: 'strided' = a non-contiguous view of a larger buffer
    (one channel of an interleaved recording), 'readonly' = a read-only array (memory-mapped file), 'reversed' = a
    negative-stride view, 'subclass' = an instance of an ndarray subclass (np.memmap, metadata-carrying arrays)."""
    sig = np.array(sig, copy=True)
    if view == 'strided':
        buf = np.empty(2 * len(sig), dtype=sig.dtype)
        buf[::2] = sig
        buf[1::2] = 77 if sig.dtype.kind in 'iu' else 12345
        return buf[::2]
    if view == 'reversed':
        return np.array(sig[::-1], copy=True)[::-1]
    if view == 'readonly':
        sig.flags.writeable = False
    if view == 'subclass':
        return sig.view(Recording)
    return sig


def retyped(x, how):
    """Numbers inside option containers as NumPy scalars ('numpy', 'mixed') or as Python ints where integral ('ints')."""
    if isinstance(x, dict):
        return {k: retyped(v, how) for k, v in x.items()}
    if isinstance(x, tuple):
        return tuple(retyped(v, how) for v in x) if how != 'mixed' else [retyped(v, how) for v in x]
    if isinstance(x, list):
        return [retyped(v, how) for v in x]
    if isinstance(x, bool) or x is None or isinstance(x, str):
        return x
    if isinstance(x, int):
        return np.int64(x) if how in ('numpy', 'mixed') else x
    if isinstance(x, float):
        if how == 'ints':
            return int(x) if x.is_integer() else x
        return np.float64(x)
    return x


def fresh_options(case):
    kw = {k: copy.deepcopy(case[k]) for k in OPT_KEYS if k in case}
    if case.get('share_filter_dict') and isinstance(kw.get('find_extrema_kwargs'), dict) and isinstance(kw.get('burst_kwargs'), dict) \
            and kw['find_extrema_kwargs'].get('filter_kwargs') == kw['burst_kwargs'].get('filter_kwargs'):
        kw['burst_kwargs']['filter_kwargs'] = kw['find_extrema_kwargs']['filter_kwargs']       # the SAME dict object in both places
    return kw


def call(case, api='func', shared=None):
    """Run the real code on deep copies of the case's inputs (or, with ``shared``, on option objects that the caller re-uses
    across several calls, as a script that writes its options once does).  Returns (table | None, exception | None)."""
    from bycycle.features import compute_features
    kw = fresh_options(case) if shared is None else shared
    sig = as_view(case['sig'], case.get('sig_view'))
    fs_arg, fr_arg = case['fs'], tuple(case['f_range'])
    how = case.get('arg_types')
    if how:
        # the same numbers as other legal Python / NumPy types (values read from a config file, np.arange, a parameter sweep array)
        kw = retyped(kw, how) if shared is None else kw
        if how == 'numpy':
            fs_arg, fr_arg = np.float64(fs_arg), tuple(np.float64(v) for v in fr_arg)      # f_range is documented as a tuple
        elif how == 'ints':
            fs_arg = int(fs_arg) if float(fs_arg).is_integer() else fs_arg
            fr_arg = [int(v) if float(v).is_integer() else v for v in fr_arg]
        else:
            fs_arg, fr_arg = np.int64(fs_arg) if float(fs_arg).is_integer() else np.float32(fs_arg).astype(np.float64), list(fr_arg)
    if api == 'func' and case.get('buffer_history') and sig.flags.writeable:
        # the same array OBJECT was analysed before, with the same settings, while it held other samples (a re-used buffer)
        keep = sig.copy()
        try:
            with quiet():
                sig[...] = keep[::-1]
                compute_features(sig, fs_arg, fr_arg, **(fresh_options(case) if shared is None else kw))
        except Exception:          # noqa: BLE001 - only the observed call is judged
            pass
        finally:
            sig[...] = keep
    try:
        with quiet():
            if api == 'func':
                return compute_features(sig, fs_arg, fr_arg, **kw), None
            from bycycle import Bycycle
            bm = Bycycle(center_extrema=kw.get('center_extrema', 'peak'), burst_method=kw.get('burst_method', 'cycles'),
                         burst_kwargs=kw.get('burst_kwargs'), thresholds=kw.get('threshold_kwargs'),
                         find_extrema_kwargs=kw.get('find_extrema_kwargs'),
                         return_samples=kw.get('return_samples', True))
            how = case.get('obj_refit')
            if how and getattr(sig, 'flags', None) is not None and sig.flags.writeable:
                # the object has a history: it was fitted before on the SAME array object with the same fs and band - with another
                # centring ('attribute'), or when the buffer held other samples ('buffer'); the fit that counts is the last one
                try:
                    if how == 'attribute':
                        bm.center_extrema = 'trough' if bm.center_extrema == 'peak' else 'peak'
                        bm.fit(sig, case['fs'], tuple(case['f_range']))
                        bm.center_extrema = kw.get('center_extrema', 'peak')
                    else:
                        keep = sig.copy()
                        sig[:] = keep[::-1]
                        bm.fit(sig, case['fs'], tuple(case['f_range']))
                        sig[:] = keep
                except Exception:          # noqa: BLE001 - only the last fit is judged
                    if how != 'attribute':
                        sig[:] = keep
                    bm.center_extrema = kw.get('center_extrema', 'peak')
            bm.fit(sig, fs_arg, fr_arg)
            return bm.df_features, None
    except Exception as e:          # noqa: BLE001 - the outcome is data for the oracle
        return None, e


def call_twice_shared(case):
    """The caller re-uses its option dictionaries: two calls with the SAME objects.  Returns the second table (or None)."""
    from bycycle.features import compute_features
    kw = {k: copy.deepcopy(case[k]) for k in OPT_KEYS if k in case}
    out = None
    try:
        with quiet():
            for _ in range(2):
                out = compute_features(np.array(case['sig'], copy=True), case['fs'], tuple(case['f_range']), **kw)
        return out
    except Exception:          # noqa: BLE001 - totality is judged on the first (independent) call
        return None


def switched_filter_length(fek, f_lo, user_fek=None):
    """The user's edit between two calls that share ``fek``: switch the kind of filter length (seconds <-> cycles) in the nested
    filter_kwargs dict, touching only keys the user wrote (``user_fek``: the options as the user wrote them)."""
    user_fk = (user_fek if user_fek is not None else fek)['filter_kwargs']
    fk = fek['filter_kwargs']
    if 'n_seconds' in user_fk:
        fk.pop('n_seconds')                 # back to the documented default (three cycles)
    else:
        n_cyc = user_fk.get('n_cycles', 3)
        if 'n_cycles' in user_fk:
            fk.pop('n_cycles')
        fk['n_seconds'] = float(n_cyc) / f_lo
    return fek


def call_then_switch(case):
    """Two calls sharing the option objects; between them the caller switches the kind of filter length in its own dict.
    Returns (second table | None, exception | None, the options of the second call as the user wrote them)."""
    from bycycle.features import compute_features
    kw = fresh_options(case)
    user2 = copy.deepcopy(case)
    switched_filter_length(user2['find_extrema_kwargs'], case['f_range'][0])
    try:
        with quiet():
            compute_features(np.array(case['sig'], copy=True), case['fs'], tuple(case['f_range']), **kw)
    except Exception:          # noqa: BLE001 - the first call is judged elsewhere
        return None, None, user2
    switched_filter_length(kw['find_extrema_kwargs'], case['f_range'][0], case['find_extrema_kwargs'])
    try:
        with quiet():
            return compute_features(np.array(case['sig'], copy=True), case['fs'], tuple(case['f_range']), **kw), None, user2
    except Exception as e:          # noqa: BLE001
        return None, e, user2


def in_domain(case):
    others = []
    bk = case.get('burst_kwargs')
    if case.get('burst_method') == 'amp':
        others.append((bk or {}).get('filter_kwargs') or {'n_cycles': 3})
    with quiet():
        ok, p, t, info = monitors.cycles_domain(case['sig'], case['fs'], tuple(case['f_range']),
                                                case.get('center_extrema', 'peak'), case.get('find_extrema_kwargs'), others)
    return ok, info


def sample_of(case):
    s = {k: case[k] for k in case if k != 'sig'}
    s['sig'] = 'array(n=%d, family=%s)' % (len(case['sig']), case.get('family'))
    return s


ANCHORS = {
    'C04': ('bycycle/features/shape.py', 'bycycle/utils/dataframes.py'),
    'C05': ('bycycle/features/burst.py',),
    'C06': ('bycycle/burst/cycle.py', 'bycycle/burst/utils.py'),
    'C07': ('bycycle/features/burst.py', 'bycycle/burst/amp.py', 'bycycle/burst/dualthresh.py'),
}


def run_case(sh, case, prop, api='func', driver='generated', nontrivial=None, totality=True):
    """One monitored execution.  Violations of ``prop`` (and monitor errors) are recorded."""
    before = dict(attach.COUNTS)
    df, exc = call(case, api)
    vs = []
    if exc is not None:
        ok, info = in_domain(case)
        if ok:
            if prop == 'C01':
                vs.append({'mechanism': attach.exc_mechanism(exc),
                           'message': '%s raised %r inside the domain (band-passed signal has %s closed half-waves, '
                                      'longest filter %s, signal length %d)'
                                      % ('compute_features' if api == 'func' else 'Bycycle.fit', exc,
                                         info.get('n_before_trim'), info.get('longest_filter'), len(case['sig']))})
            else:
                # a property that promises a value is violated when its own anchored code raises instead
                frame = attach.innermost_repo_frame(exc.__traceback__)
                if frame.split(':')[0] in ANCHORS.get(prop, ()):
                    vs.append({'mechanism': attach.exc_mechanism(exc),
                               'message': 'raised %r inside the domain (in %s)' % (exc, frame)})
            sh.note('raised_in_domain:' + type(exc).__name__)
        else:
            sh.note('outside_domain:' + str(info.get('why')))
    if api == 'obj' and df is not None and prop == 'C01' and monitors.centre_of(df) is not None:
        # the object interface must honour the options the USER gave (not whatever it forwarded to compute_features)
        fek_user = case.get('find_extrema_kwargs')
        with quiet():
            monitors.check_structure(df, len(case['sig']), (fek_user or {}).get('boundary', 0), 'Bycycle.fit')
            monitors.check_rows_against_reference(df, np.asarray(case['sig']), case['fs'], tuple(case['f_range']),
                                                  case.get('center_extrema', 'peak'),
                                                  fek_user if fek_user is not None else {'filter_kwargs': {'n_cycles': 3}}, 'Bycycle.fit')
    if api == 'func' and df is not None and prop == 'C01' and case.get('reuse_options') and case.get('return_samples', True):
        # a second call with the same option objects must still honour the options as the user wrote them
        df2 = call_twice_shared(case)
        attach.take_violations()
        if df2 is not None and monitors.centre_of(df2) is not None:
            fek_user = case.get('find_extrema_kwargs')
            with quiet():
                monitors.check_structure(df2, len(case['sig']), (fek_user or {}).get('boundary', 0), 'second compute_features call sharing the option dicts')
                monitors.check_rows_against_reference(df2, np.asarray(case['sig']), case['fs'], tuple(case['f_range']),
                                                      case.get('center_extrema', 'peak'),
                                                      fek_user if fek_user is not None else {'filter_kwargs': {'n_cycles': 3}},
                                                      'second compute_features call sharing the option dicts')
            sh.note('reused_option_dicts')
    fek0 = case.get('find_extrema_kwargs')
    if api == 'func' and df is not None and prop == 'C01' and case.get('switch_filter_length') and case.get('return_samples', True) \
            and isinstance(fek0, dict) and isinstance(fek0.get('filter_kwargs'), dict):
        # the caller keeps its option dicts, switches the kind of filter length (seconds <-> cycles) in them and calls again
        pending = attach.take_violations()
        df3, e3, user2 = call_then_switch(case)
        attach.take_violations()
        attach.VIOLS.extend(pending)
        sh.note('filter_length_kind_switched_between_calls')
        if e3 is not None:
            ok3, info3 = in_domain(user2)
            if ok3:
                vs.append({'mechanism': 'second-call-after-option-edit:' + attach.exc_mechanism(e3),
                           'message': 'after the caller switched the filter length kind in its own dict (%s -> %s) compute_features raised %r'
                                      % (fek0.get('filter_kwargs'), user2['find_extrema_kwargs'].get('filter_kwargs'), e3)})
        elif df3 is not None and monitors.centre_of(df3) is not None:
            with quiet():
                monitors.check_rows_against_reference(df3, np.asarray(case['sig']), case['fs'], tuple(case['f_range']),
                                                      case.get('center_extrema', 'peak'), user2['find_extrema_kwargs'],
                                                      'compute_features after the caller switched the filter length kind in its dict')
    got = attach.take_violations()
    vs += [v for v in got if v['property'] in (prop, '_monitor')]
    for v in got:
        if v['property'] not in (prop, '_monitor'):
            sh.note('alarm_of_other_property:' + v['property'])
    for v in vs:
        sh.violate(case, v, driver)
    delta = {k: attach.COUNTS[k] - before.get(k, 0) for k in attach.COUNTS if attach.COUNTS[k] != before.get(k, 0)}
    nt = bool(nontrivial(case, df, delta)) if (nontrivial and df is not None) else False
    if df is not None and case.get('burst_method') == 'amp' and 'burst_fraction' in df.columns and 'is_burst' in df.columns:
        t_ = (case.get('threshold_kwargs') or {}).get('burst_fraction_threshold', 1)
        if bool(((df['burst_fraction'].to_numpy() >= t_) & ~df['is_burst'].to_numpy().astype(bool)).any()):
            sh.note('amp_tables_where_the_run_filter_cleared_cycles')
    if isinstance(fek0, dict) and 'filter_kwargs' in fek0 and (fek0['filter_kwargs'] is None or None in fek0['filter_kwargs'].values()):
        sh.note('filter_options_with_defaults_written_out_as_None' + ('' if df is not None else ':raised'))
    sh.note('family:' + str(case.get('family')))
    sh.note('cell:%s:%s:%s' % (case.get('center_extrema'), case.get('burst_method'), api))
    sh.case_done(case, nt, sample=sample_of(case))
    return df, exc, delta
