"""Artist inspector: reads what a figure actually shows (Agg backend) and checks it against the analysis."""
import numpy as np

TOL = 1e-6      # samples


def line_xy(ln):
    x = np.asarray(np.ma.getdata(ln.get_xdata()), dtype=float)
    y = ln.get_ydata()
    mask = np.ma.getmaskarray(y) if np.ma.isMaskedArray(y) else np.zeros(len(x), dtype=bool)
    return x, np.asarray(np.ma.getdata(y), dtype=float), mask


def to_samples(x, fs):
    """Sample index of each x (seconds); None if some x is not on the sample grid."""
    s = np.rint(np.asarray(x, dtype=float) * fs)
    if len(s) and np.max(np.abs(np.asarray(x, dtype=float) * fs - s)) > 1e-3:
        return None
    return s.astype(int)


def is_marker_line(ln):
    return ln.get_marker() not in (None, 'None', '', ' ') and ln.get_linestyle() in ('None', '', ' ')


def check_marker_series(lines, series, fs, view, trace_y_at, where, completeness=True):
    """``lines``: marker Line2D objects in drawing order; ``series``: list of (name, set of genuine samples).

    Returns (violation tuple | None, n markers checked)."""
    if len(lines) != len(series):
        return ('marker-series-count', '%s: %d marker series drawn, %d kinds requested' % (where, len(lines), len(series))), 0
    nchk = 0
    vmin, vmax = (view[0], view[-1]) if len(view) else (0, -1)
    for ln, (name, genuine) in zip(lines, series):
        x, y, _ = line_xy(ln)
        s = to_samples(x, fs)
        if s is None:
            return ('marker-off-grid:' + name, '%s: a %s marker is not at a sample time (x*fs=%s)' % (where, name, (x * fs)[:3])), nchk
        for k, yy in zip(s.tolist(), y.tolist()):
            nchk += 1
            if k not in genuine:
                near = sorted(genuine, key=lambda g: abs(g - k))[:1]
                return ('marker-not-on-a-cyclepoint:' + name,
                        '%s: %s marker at sample %d is not a %s of the analysis (nearest genuine: %s)' % (where, name, k, name, near)), nchk
            ref = trace_y_at(k)
            if ref is not None and not (yy == ref or (yy != yy and ref != ref)):
                return ('marker-y-not-signal:' + name, '%s: %s marker at sample %d has y=%r, plotted signal is %r' % (where, name, k, yy, ref)), nchk
        drawn = set(s.tolist())
        need = {g for g in genuine if vmin < g < vmax} if completeness else set()
        miss = sorted(need - drawn)
        if miss:
            return ('cyclepoint-in-view-not-drawn:' + name,
                    '%s: %s at samples %s lie strictly inside the view [%d, %d] but are not drawn (%d drawn)'
                    % (where, name, miss[:4], vmin, vmax, len(drawn))), nchk
    return None, nchk
