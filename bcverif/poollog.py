"""Worker-side recorder for the multiprocessing pool: injected delays, start/finish event log,
offline placement checker.

The wrapper is bound over compute_features / compute_features_2d in every bycycle module *before* the
library forks its Pool, so the forked workers inherit it.  Delays are sleeps before the analysis
inside a worker (where a real machine could stall a process); they are keyed by the content of the
signal the worker received, so the driver chooses the completion order.
"""
import hashlib
import json
import os
import time

import numpy as np

from . import attach

STATE = {'log': None, 'delays': {}, 'parent': None}


def sig_key(a):
    a = np.ascontiguousarray(np.asarray(a, dtype=float))
    return hashlib.sha1(a.tobytes() + str(a.shape).encode()).hexdigest()[:16]


def canon(o):
    """Canonical, order-insensitive rendering of an option structure."""
    if isinstance(o, dict):
        return {str(k): canon(o[k]) for k in sorted(o, key=str)}
    if isinstance(o, (list, tuple)):
        return [canon(v) for v in o]
    if isinstance(o, np.ndarray):
        return canon(o.tolist())
    if isinstance(o, (np.floating, float)):
        return repr(float(o))
    if isinstance(o, (np.integer,)):
        return int(o)
    if isinstance(o, (np.bool_,)):
        return bool(o)
    return o


def opt_key(d):
    return hashlib.sha1(json.dumps(canon(d), sort_keys=True, default=repr).encode()).hexdigest()[:12]


def emit(ev):
    path = STATE['log']
    if not path:
        return
    fd = os.open(path, os.O_WRONLY | os.O_APPEND | os.O_CREAT, 0o644)
    try:
        os.write(fd, (json.dumps(ev) + '\n').encode())
    finally:
        os.close(fd)


def _wrap(fname):
    def make(orig):
        def wrapper(sig, *a, **k):
            if STATE['log'] is None:
                return orig(sig, *a, **k)
            key = sig_key(sig)
            in_worker = os.getpid() != STATE['parent']
            d = STATE['delays'].get(key, 0.0) if in_worker else 0.0
            t0 = time.monotonic()
            if d:
                time.sleep(d)
            opts = {kk: vv for kk, vv in k.items() if kk not in ('fs', 'f_range')}
            okey, ocanon = opt_key(opts), canon(opts)        # before the call: the callee may write into them
            try:
                out = orig(sig, *a, **k)
                status = 'ok'
            except BaseException as e:
                emit({'f': fname, 'pid': os.getpid(), 'worker': in_worker, 'key': key, 'opt': okey,
                      't0': t0, 't1': time.monotonic(), 'status': type(e).__name__})
                raise
            emit({'f': fname, 'pid': os.getpid(), 'worker': in_worker, 'key': key, 'opt': okey,
                  'opts': ocanon, 't0': t0, 't1': time.monotonic(), 'status': status, 'shape': list(np.shape(sig))})
            return out
        return wrapper
    return make


_DONE = []


def install():
    if _DONE:
        return
    _DONE.append(1)
    STATE['parent'] = os.getpid()
    attach.attach('bycycle.features.features', 'compute_features', _wrap('compute_features'))
    attach.attach('bycycle.group.features', 'compute_features_2d', _wrap('compute_features_2d'))


class Session:
    """One observed pool run: set delays, run, read the events."""

    def __init__(self, workdir, delays=None):
        self.path = os.path.join(workdir, 'pool_%d_%d.jsonl' % (os.getpid(), int(time.monotonic() * 1e6)))
        self.delays = delays or {}

    def __enter__(self):
        STATE['log'] = self.path
        STATE['delays'] = dict(self.delays)
        STATE['parent'] = os.getpid()
        return self

    def __exit__(self, *exc):
        STATE['log'] = None
        STATE['delays'] = {}
        return False

    def events(self):
        out = []
        if os.path.exists(self.path):
            with open(self.path) as f:
                for line in f:
                    line = line.strip()
                    if line:
                        out.append(json.loads(line))
            os.unlink(self.path)
        return out


def tables_equal(a, b):
    """Exact equality of two cycle tables (NaN == NaN); returns None or a description."""
    if a is None or b is None:
        return None if a is b else 'one table missing'
    if list(a.columns) != list(b.columns):
        return 'columns differ: %s' % sorted(set(a.columns) ^ set(b.columns))
    if len(a) != len(b):
        return 'row count %d vs %d' % (len(a), len(b))
    for c in a.columns:
        x, y = a[c].to_numpy(), b[c].to_numpy()
        if x.dtype == bool or y.dtype == bool or x.dtype == object:
            same = np.array_equal(x, y)
        else:
            same = np.array_equal(x, y, equal_nan=True)
        if not same:
            idx = int(np.flatnonzero(~((x == y) | ((x != x) & (y != y))))[0]) if x.dtype != object else -1
            return 'column %s row %d: %r vs %r' % (c, idx, x[idx] if idx >= 0 else None, y[idx] if idx >= 0 else None)
    return None


def completion_order(events, keys, fname='compute_features'):
    """Permutation of row indices in order of worker completion (rows identified by content key)."""
    evs = sorted([e for e in events if e['f'] == fname and e.get('worker') and e['status'] == 'ok'],
                 key=lambda e: e['t1'])
    pos = {k: i for i, k in enumerate(keys)}
    return [pos[e['key']] for e in evs if e['key'] in pos]
