"""Per-property drivers.  CONFIG holds, per property: title, deciding monitors, non-trivial rule,
floors (per tier) below which a run is inconclusive, shard counts and assumptions."""

CONFIG = {}


def register(prop, **kw):
    CONFIG[prop] = kw


from . import config  # noqa: E402,F401
