"""C01 - the cycle table is a complete, ordered, gap-free segmentation."""
from .. import attach, gen, monitors, pipeline

PROP = 'C01'


def setup(sh):
    monitors.install_pipeline()


def nontrivial(case, df, delta):
    return len(df) >= 3 and case.get('family') != 'sine'


def run(sh):
    rng = gen.rng_for(sh.seed, PROP, sh.shard)
    K = 50 if sh.tier == 'quick' else 5000
    for it in range(K):
        case = gen.gen_pipeline_case(rng)
        api = 'func' if rng.random() < 0.7 else 'obj'
        case['reuse_options'] = bool(rng.random() < 0.3)
        case['switch_filter_length'] = bool(rng.random() < 0.35)
        pipeline.run_case(sh, case, PROP, api=api, nontrivial=nontrivial)
    for k, v in attach.COUNTS.items():
        if k.startswith('C01:'):
            sh.classes[k[4:]] = v


_run_generated = run


def run(sh):      # noqa: F811 - thorough tier: the repository's own tests are one more workload for the same monitors
    _run_generated(sh)
    if sh.tier == 'thorough' and sh.shard == 0:
        from .. import repotests
        repotests.run(sh, PROP)


def replay(sh, driver, case):
    pipeline.run_case(sh, case, PROP, api='func', driver=driver, nontrivial=nontrivial)
    pipeline.run_case(sh, case, PROP, api='obj', driver=driver, nontrivial=nontrivial)
