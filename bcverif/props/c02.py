"""C02 - extrema are raw-signal extremes of narrowband half-waves."""
import numpy as np

from .. import attach, gen, monitors, pipeline
from ..runner import quiet

PROP = 'C02'


def setup(sh):
    monitors.install_pipeline()


def gen_case(rng, tier, long=False):
    fs, lo, hi = gen.gen_config(rng)
    r = rng.random()
    fam = None
    if long:
        # a long recording (several 10^5 samples) of a rhythm that is fast for its sampling rate: many half-waves, and whatever is
        # done block-wise or with narrow index types inside the implementation gets its seams / limits exercised
        fs = float(rng.choice([100., 128., 200., 250.]))
        lo = float(round(fs * rng.choice([0.08, 0.1, 0.12])))
        hi = lo + float(round(fs * 0.06))
        n = int(rng.integers(70000, 210000))
        sig, kind = gen.gen_signal(rng, fs, lo, hi, n / fs, str(rng.choice(['bursty', 'noise', 'sum', 'asine', 'quant'])))
        fk = None if rng.random() < 0.5 else {'n_cycles': int(rng.choice([3, 4]))}
        return dict(sig=sig, fs=fs, f_range=(lo, hi), boundary=int(rng.choice([0, 25])), first_extrema=[None, 'peak', 'trough'][int(rng.integers(0, 3))],
                    filter_kwargs=fk, pad=bool(rng.random() < 0.65), family=kind + '+long', arg_types=None, history=None, sig_view=None)
    if r < 0.25:
        fam = str(rng.choice(['quant', 'clip', 'plateau', 'zeroed']))     # ties inside one window
    elif r < 0.35:
        fam = 'tail'                                                     # half-wave straddling the pad
    sig, kind = gen.gen_signal(rng, fs, lo, hi, gen.duration(rng, lo, (0.6, 6.0)), fam)
    if rng.random() < 0.3:
        sig = -sig
    if rng.random() < 0.12:
        # raw A/D counts of a narrow integer type that saturate at the rails of the type (signed: both rails, unsigned: 0 and max)
        x = np.asarray(sig, dtype=float)
        x = x / (np.max(np.abs(x)) + 1e-300)
        dt = [np.int16, np.uint16, np.int8, np.uint8][int(rng.integers(0, 4))]
        info = np.iinfo(dt)
        half = (float(info.max) - float(info.min)) / 2.0
        mid = (float(info.max) + float(info.min)) / 2.0
        sig = np.clip(np.round(mid + x * half * float(rng.choice([1.0, 1.3, 2.0]))), info.min, info.max).astype(dt)
        kind = kind + '+' + np.dtype(dt).name
    fk = None
    r = rng.random()
    if r < 0.6:
        fk = {'n_cycles': int(rng.choice([2, 3, 4, 5, 7]))}
    elif r < 0.8:
        fk = {'n_seconds': float(rng.choice([2, 3, 4])) / lo}
    pad = bool(rng.random() < 0.65)
    boundary = int(rng.choice([0, 0, 1, 5, 7, int(fs / lo)]))
    if rng.random() < 0.25:
        b = gen.boundary_on_extremum(rng, sig, fs, (lo, hi), fk, pad)     # strictness of the boundary rule
        if b is not None:
            boundary, kind = b, kind + '+b'
    return dict(sig=sig, fs=fs, f_range=(lo, hi), boundary=boundary,
                first_extrema=[None, 'peak', 'trough'][int(rng.integers(0, 3))], filter_kwargs=fk,
                pad=pad, family=kind, arg_types=[None, None, 'numpy', 'ints'][int(rng.integers(0, 4))], history=[None, None, {'n_cycles': 1}, {'n_seconds': 0.5 / hi}, {'n_cycles': 9}][int(rng.integers(0, 5))], sig_view=[None, None, None, 'strided', 'readonly', 'reversed'][int(rng.integers(0, 6))])


def one(sh, case, driver='generated'):
    from bycycle.cyclepoints import find_extrema
    import copy
    kw = {k: copy.deepcopy(case[k]) for k in ('boundary', 'first_extrema', 'filter_kwargs', 'pad')}
    how = case.get('arg_types')
    if how == 'numpy':
        # the same settings as NumPy scalars (rows of an option table, np.arange / boolean arrays of a sweep)
        kw['pad'], kw['boundary'] = np.bool_(kw['pad']), np.int64(kw['boundary'])
        kw['filter_kwargs'] = pipeline.retyped(kw['filter_kwargs'], 'numpy')
    elif how == 'ints':
        kw['pad'] = int(kw['pad'])
    fs_arg = np.float64(case['fs']) if how == 'numpy' else (int(case['fs']) if how == 'ints' and float(case['fs']).is_integer() else case['fs'])
    if how:
        sh.note('settings_as=' + how)
    vs = []
    w0 = attach.COUNTS['C02:windows']
    t0 = attach.COUNTS['C02:windows_with_ties']
    o0 = attach.COUNTS['C02:windows_offcentre']
    res = None
    if case.get('history'):
        # call history: the same band was analysed before in this process with a much shorter (or longer) filter
        try:
            with quiet():
                find_extrema(pipeline.as_view(case['sig'], None), case['fs'], tuple(case['f_range']), filter_kwargs=dict(case['history']),
                             boundary=0, pad=case['pad'])
            sh.note('earlier_call_on_the_same_band:' + ','.join(case['history']))
        except Exception:
            sh.note('earlier_call_raised')
    try:
        with quiet():
            res = find_extrema(pipeline.as_view(case['sig'], case.get('sig_view')), fs_arg, tuple(case['f_range']), **kw)
    except Exception as e:
        # totality inside the domain: the reference finds >= 2 closed half-waves of each kind
        try:
            with quiet():
                rp, rt, info = monitors.documented_extrema(np.asarray(case['sig']), case['fs'], tuple(case['f_range']),
                                                           case['boundary'], case['first_extrema'],
                                                           case['filter_kwargs'], 'bandpass', case['pad'])
            indom = rp is not None and min(info['n_before_trim']) >= 2 and len(case['sig']) > info['filt_len']
        except Exception:
            indom = False
        if indom:
            vs.append({'mechanism': attach.exc_mechanism(e),
                       'message': 'find_extrema raised %r although the band-passed signal has %s closed half-waves'
                                  % (e, info['n_before_trim'])})
            sh.note('raised_in_domain')
        else:
            sh.note('outside_domain:' + type(e).__name__)
    vs += [v for v in attach.take_violations() if v['property'] in (PROP, '_monitor')]
    for v in vs:
        sh.violate(case, v, driver)
    nw = attach.COUNTS['C02:windows'] - w0
    nontrivial = res is not None and len(res[0]) >= 3 and len(res[1]) >= 3 and \
        (attach.COUNTS['C02:windows_offcentre'] - o0) > 0
    sh.note('family:' + str(case.get('family')))
    sh.note('pad=%s' % case['pad'])
    sh.note('sig_view=%s' % case.get('sig_view'))
    sh.note('dtype=%s' % np.asarray(case['sig']).dtype.name)
    if np.asarray(case['sig']).dtype.kind in 'iu' and np.asarray(case['sig']).dtype.itemsize < 8:
        sh.note('narrow_integer_samples')
    if attach.COUNTS['C02:windows_with_ties'] - t0 > 0:
        sh.note('cases_with_tied_window')
    sh.case_done(case, nontrivial,
                 sample={k: (case[k] if k != 'sig' else 'array(n=%d)' % len(case['sig'])) for k in case})


def run(sh):
    rng = gen.rng_for(sh.seed, PROP, sh.shard)
    K = 50 if sh.tier == 'quick' else 9000
    for it in range(K):
        one(sh, gen_case(rng, sh.tier))
    for it in range(2 if sh.tier == 'quick' else 12):
        c = gen_case(rng, sh.tier, long=True)
        one(sh, c)
        sh.note('long_recordings')
        sh.note('long_recordings:samples', len(c['sig']))
    for k, v in attach.COUNTS.items():
        if k.startswith('C02:'):
            sh.classes[k[4:]] = v


_run_generated = run


def run(sh):      # noqa: F811 - thorough tier: the repository's own tests are one more workload for the same monitors
    _run_generated(sh)
    if sh.tier == 'thorough' and sh.shard == 0:
        from .. import repotests
        repotests.run(sh, PROP)


def replay(sh, driver, case):
    one(sh, case, driver)
