"""C03 - flank midpoints sit where the flank crosses its half-height."""
import itertools

import numpy as np

from .. import attach, gen, monitors
from ..runner import quiet

PROP = 'C03'
ALPHABET = (-1, 0, 1, 2)


def setup(sh):
    monitors.install_pipeline()


_N = [0]
_BUF = {}


def buffered(sig, as_int):
    """The caller's acquisition buffer: ONE array object per (length, sample type), refilled in place before every call."""
    a = np.asarray(sig)
    if as_int and a.dtype.kind == 'f' and len(a) and np.all(a == np.round(a)) and np.all(np.abs(a) < 2 ** 31):
        a = a.astype(np.int64)
    buf = _BUF.setdefault((len(a), a.dtype.str), np.empty(len(a), dtype=a.dtype))
    buf[:] = a
    return buf


def call(sh, sig, peaks, troughs, driver, case=None):
    from bycycle.cyclepoints import find_zerox
    from .. import pipeline
    vs = []
    _N[0] += 1
    view = (None, None, 'strided', 'readonly', 'reversed', 'buffer', 'int_buffer')[_N[0] % 7]       # memory layout of the signal, rotating
    if view:
        attach.count('C03:sig_view=' + view)
    try:
        arg = buffered(sig, view == 'int_buffer') if view in ('buffer', 'int_buffer') else pipeline.as_view(sig, view)
        if view == 'int_buffer' and arg.dtype.kind == 'i':
            attach.count('C03:integer_buffer_refilled_in_place')
        find_zerox(arg, np.asarray(peaks, dtype=int), np.asarray(troughs, dtype=int))
    except Exception as e:
        vs.append({'mechanism': attach.exc_mechanism(e), 'message': 'find_zerox raised %r' % (e,)})
    vs += [v for v in attach.take_violations() if v['property'] in (PROP, '_monitor')]
    if vs:
        case = case or {'sig': np.asarray(sig), 'peaks': list(map(int, peaks)), 'troughs': list(map(int, troughs))}
        for v in vs:
            sh.violate(case, v, driver)
    return not vs


def exhaustive(sh, L):
    total = 0
    idx = 0
    subsets = {}
    for n in range(2, L + 1):
        subsets[n] = [c for k in range(2, n + 1) for c in itertools.combinations(range(n), k)]
    for n in range(2, L + 1):
        for vals in itertools.product(ALPHABET, repeat=n):
            idx += 1
            if idx % sh.nshards != sh.shard:
                continue
            sig = np.array(vals, dtype=float)
            for pos in subsets[n]:
                a, b = pos[0::2], pos[1::2]
                call(sh, sig, a, b, 'exhaustive')
                call(sh, sig, b, a, 'exhaustive')
                total += 2
    sh.cases += total
    sh.exhaustive['int_signals_len<=%d_alphabet%s_x_all_alternating_sequences' % (L, list(ALPHABET))] = {'cases': total}
    sh.samples.append({'sig': [1, -1, 2, 0, 1], 'peaks': [0, 2], 'troughs': [1, 3],
                       'space': 'every signal over %s up to length %d x every alternating index sequence' % (list(ALPHABET), L)})


def run(sh):
    from bycycle.cyclepoints import find_extrema
    L = 6 if sh.tier == 'quick' else 8
    exhaustive(sh, L)
    before = dict(attach.COUNTS)
    rng = gen.rng_for(sh.seed, PROP, sh.shard)
    K = 60 if sh.tier == 'quick' else 1500
    for it in range(K):
        fs, lo, hi = gen.gen_config(rng)
        sig, kind = gen.gen_signal(rng, fs, lo, hi, rng.uniform(1.0, 6.0))
        fe = [None, 'peak', 'trough'][int(rng.integers(0, 3))]
        boundary = int(rng.choice([0, 0, 1, 5]))
        if rng.random() < 0.3:
            sig = -sig
        try:
            with quiet():
                p, t = find_extrema(sig, fs, (lo, hi), boundary=boundary, first_extrema=fe,
                                    filter_kwargs={'n_cycles': int(rng.choice([2, 3, 5]))})
        except Exception:
            sh.note('generated:find_extrema_raised')
            continue
        if len(p) < 2 or len(t) < 2:
            sh.note('generated:too_few_extrema')
            continue
        c0 = {k: v for k, v in attach.COUNTS.items() if k.startswith('C03:branch:')}
        case = {'sig': sig, 'peaks': p, 'troughs': t, 'family': kind, 'fs': fs, 'f_range': (lo, hi)}
        call(sh, sig, p, t, 'generated', case)
        c1 = {k: v for k, v in attach.COUNTS.items() if k.startswith('C03:branch:')}
        interesting = any(c1.get(k, 0) > c0.get(k, 0) for k in c1
                          if not k.endswith(':single'))
        sh.note('generated:' + kind)
        sh.case_done(None, interesting, key='g%d:%d' % (sh.shard, it),
                     sample={'family': kind, 'fs': fs, 'f_range': [lo, hi], 'n': len(sig), 'peaks': [int(v) for v in p[:4]],
                             'troughs': [int(v) for v in t[:4]]})
    # branch counters into classes
    for k, v in attach.COUNTS.items():
        if k.startswith('C03:sig_view='):
            sh.classes[k[4:]] = v
        if k.startswith('C03:branch:'):
            sh.classes['flanks:' + k[11:]] = v
    # distinct non-trivial exhaustive flanks: counted by branch kind per shard (conservative)
    for k, v in attach.COUNTS.items():
        if k.startswith('C03:branch:') and not k.endswith(':single'):
            for j in range(min(v, 50)):
                sh.nontrivial.add('%s#%d#%d' % (k, sh.shard, j))


_run_generated = run


def run(sh):      # noqa: F811 - thorough tier: the repository's own tests are one more workload for the same monitors
    _run_generated(sh)
    if sh.tier == 'thorough' and sh.shard == 0:
        from .. import repotests
        repotests.run(sh, PROP)


def replay(sh, driver, case):
    call(sh, np.asarray(case['sig'], dtype=float), case['peaks'], case['troughs'], driver, case)
    sh.case_done(case, True)
