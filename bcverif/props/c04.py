"""C04 - shape features equal their documented definitions."""
import numpy as np

from .. import attach, gen, monitors, pipeline
from ..runner import quiet

PROP = 'C04'


def setup(sh):
    monitors.install_pipeline()


def nontrivial(case, df, delta):
    return delta.get('C04:tables_asymmetric', 0) > 0 and len(df) >= 3


def direct_shape(sh, rng):
    """compute_shape_features called directly (own n_cycles argument for the band amplitude)."""
    from bycycle.features import compute_shape_features
    fs, lo, hi = gen.gen_config(rng)
    sig, kind = gen.gen_signal(rng, fs, lo, hi, rng.uniform(1.5, 5.0))
    center = str(rng.choice(['peak', 'trough']))
    n_cycles = [2, 3, 5, 2.5, 3.5, 4.75][int(rng.integers(0, 6))]          # any positive length is legal, also a fractional one
    fek = gen.gen_find_extrema_kwargs(rng, fs, lo)
    case = dict(sig=sig, fs=fs, f_range=(lo, hi), center_extrema=center, find_extrema_kwargs=fek, n_cycles=n_cycles,
                family=kind)
    run_direct(sh, case)


def run_direct(sh, case, driver='direct_shape'):
    from bycycle.features import compute_shape_features
    import copy
    before = dict(attach.COUNTS)
    try:
        with quiet():
            df = compute_shape_features(np.array(case['sig'], copy=True), case['fs'], tuple(case['f_range']),
                                        center_extrema=case['center_extrema'],
                                        find_extrema_kwargs=copy.deepcopy(case['find_extrema_kwargs']),
                                        n_cycles=case['n_cycles'])
    except Exception as e:
        df = None
        sh.note('direct_raised:' + type(e).__name__)
    vs = [v for v in attach.take_violations() if v['property'] in (PROP, '_monitor')]
    for v in vs:
        sh.violate(case, v, driver)
    asym = attach.COUNTS['C04:tables_asymmetric'] - before.get('C04:tables_asymmetric', 0)
    sh.note('direct:n_cycles=%s' % ('fractional' if float(case['n_cycles']) != int(case['n_cycles']) else 'whole'))
    sh.case_done(case, df is not None and asym > 0 and len(df) >= 3, sample=pipeline.sample_of(case))


def run(sh):
    rng = gen.rng_for(sh.seed, PROP, sh.shard)
    K = 40 if sh.tier == 'quick' else 2000
    fams = ['asine', 'bursty', 'noise', 'sum', 'chirp', 'quant', 'clip', 'zeroed', 'dc', 'oscnoise', 'tail', 'plateau',
            'asine', 'noise', 'sine']
    for it in range(K):
        case = gen.gen_pipeline_case(rng, families=fams)
        if rng.random() < 0.85:
            case['return_samples'] = True
        pipeline.run_case(sh, case, PROP, api='func' if rng.random() < 0.8 else 'obj', nontrivial=nontrivial,
                          totality=False)
        if it % 4 == 0:
            direct_shape(sh, rng)
    for k, v in attach.COUNTS.items():
        if k.startswith('C04:'):
            sh.classes[k[4:]] = v


_run_generated = run


def run(sh):      # noqa: F811 - thorough tier: the repository's own tests are one more workload for the same monitors
    _run_generated(sh)
    if sh.tier == 'thorough' and sh.shard == 0:
        from .. import repotests
        repotests.run(sh, PROP)


def replay(sh, driver, case):
    if driver == 'direct_shape':
        run_direct(sh, case, driver)
    else:
        pipeline.run_case(sh, case, PROP, driver=driver, nontrivial=nontrivial, totality=False)
