"""C05 - burst features equal their documented definitions."""
import copy

import numpy as np

from .. import attach, gen, monitors, pipeline
from ..runner import quiet

PROP = 'C05'


def setup(sh):
    monitors.install_pipeline()


def nontrivial(case, df, delta):
    return len(df) >= 5 and (delta.get('C05:tables_with_rank_ties', 0) > 0 or
                             delta.get('C05:tables_with_nonmonotone_steps', 0) > 0)


def directions(sh, case):
    """Directions next / last (and both) on the shape table of the case, called directly."""
    from bycycle.features import compute_shape_features
    from bycycle.features.burst import compute_amp_consistency, compute_period_consistency
    try:
        with quiet():
            df = compute_shape_features(np.array(case['sig'], copy=True), case['fs'], tuple(case['f_range']),
                                        center_extrema=case['center_extrema'],
                                        find_extrema_kwargs=copy.deepcopy(case['find_extrema_kwargs']))
    except Exception:
        return
    for d in ('next', 'last', 'both'):
        try:
            with quiet():
                compute_amp_consistency(df, direction=d)
                compute_period_consistency(df, direction=d)
        except Exception as e:
            sh.violate(case, {'mechanism': attach.exc_mechanism(e), 'message': 'direction %s raised %r' % (d, e)},
                       'directions')
    # a table from which rows were dropped (every other cycle, the large-amplitude cycles): each remaining row is still judged
    # by its own cyclepoints (the monitor on compute_monotonicity computes the reference row by row)
    from bycycle.features.burst import compute_monotonicity as _cm
    for sub in (df.iloc[::2], df[df['volt_amp'] >= df['volt_amp'].median()]):
        if len(sub) >= 2:
            try:
                with quiet():
                    _cm(sub.copy(), np.array(case['sig'], copy=True))
                attach.count('C05:monotonicity_on_tables_with_dropped_rows')
            except Exception as e:
                sh.violate(case, {'mechanism': attach.exc_mechanism(e), 'message': 'compute_monotonicity on a table with dropped rows raised %r' % (e,)},
                           'directions')
    # the assembled table: compute_burst_features puts, row for row, what the four feature functions return for the same cycle table
    # (each of them is judged by its own monitor) - also when the cycle table carries its own row labels
    from bycycle.features.burst import compute_burst_features, compute_amp_fraction, compute_monotonicity
    import pandas as pd
    for labels in ('default', 'offset', 'gaps'):
        tb = df.copy()
        if labels == 'offset':
            tb.index = pd.RangeIndex(9, 9 + len(tb))
        elif labels == 'gaps':
            tb.index = pd.Index(np.arange(len(tb)) * 2 + 3)
        try:
            with quiet():
                out = compute_burst_features(tb, np.array(case['sig'], copy=True), burst_method='cycles')
                parts = {'amp_fraction': compute_amp_fraction(tb), 'amp_consistency': compute_amp_consistency(tb),
                         'period_consistency': compute_period_consistency(tb),
                         'monotonicity': compute_monotonicity(tb, np.array(case['sig'], copy=True))}
        except Exception as e:
            sh.violate(case, {'mechanism': attach.exc_mechanism(e), 'message': 'compute_burst_features on a table with %s row labels raised %r'
                                                                              % (labels, e)}, 'directions')
            continue
        attach.count('C05:assembled_tables:%s_row_labels' % labels)
        if len(out) != len(tb):
            sh.violate(case, {'mechanism': 'burst-feature-table-rows', 'message': '%d rows for %d cycles (%s row labels)' % (len(out), len(tb), labels)},
                       'directions')
            continue
        for col, ref in parts.items():
            x = np.asarray(out[col], dtype=float)
            y = np.asarray(ref, dtype=float)
            if not np.array_equal(x, y, equal_nan=True):
                i = int(np.flatnonzero(~((x == y) | (np.isnan(x) & np.isnan(y))))[0])
                sh.violate(case, {'mechanism': 'burst-feature-table-misassembled:' + col,
                                  'message': 'compute_burst_features (%s row labels) row %d %s: %r, the feature function returns %r for that cycle'
                                             % (labels, i, col, x[i], y[i])}, 'directions')
                break
    for v in attach.take_violations():
        if v['property'] in (PROP, '_monitor'):
            sh.violate(case, v, 'directions')


def run(sh):
    rng = gen.rng_for(sh.seed, PROP, sh.shard)
    K = 40 if sh.tier == 'quick' else 2000
    fams = ['quant', 'clip', 'plateau', 'quant', 'plateau', 'asine', 'bursty', 'noise', 'sum', 'chirp', 'zeroed', 'dc',
            'oscnoise', 'tail', 'sine']
    for it in range(K):
        case = gen.gen_pipeline_case(rng, families=fams, methods=('cycles',))
        pipeline.run_case(sh, case, PROP, api='func', nontrivial=nontrivial, totality=False)
        if it % 2 == 0:
            directions(sh, case)
    for k, v in attach.COUNTS.items():
        if k.startswith('C05:'):
            sh.classes[k[4:]] = v


_run_generated = run


def run(sh):      # noqa: F811 - thorough tier: the repository's own tests are one more workload for the same monitors
    _run_generated(sh)
    if sh.tier == 'thorough' and sh.shard == 0:
        from .. import repotests
        repotests.run(sh, PROP)


def replay(sh, driver, case):
    pipeline.run_case(sh, case, PROP, driver=driver, nontrivial=nontrivial, totality=False)
    directions(sh, case)
