"""C06 - consistency burst labels follow the threshold-and-run rule."""
import copy

import numpy as np
import pandas as pd

from .. import attach, gen, monitors, pipeline, refs
from ..runner import quiet

PROP = 'C06'
FEATS = ('amp_fraction', 'amp_consistency', 'period_consistency', 'monotonicity')
THR = tuple(f + '_threshold' for f in FEATS)


def setup(sh):
    monitors.install_pipeline()


def collect(sh, case, driver):
    vs = [v for v in attach.take_violations() if v['property'] in (PROP, '_monitor')]
    for v in vs:
        sh.violate(case, v, driver)
    return vs


def detect(sh, case, driver='synthetic'):
    """detect_bursts_cycles on a materialised table + monotonicity chain."""
    from bycycle.burst import detect_bursts_cycles
    cols = case['table']
    thr = dict(case['thresholds'])
    df = pd.DataFrame({f: np.array(cols[f], dtype=float) for f in FEATS})
    order = case.get('columns')
    if order:
        # a table assembled by the user (or re-ordered, e.g. df[sorted(df.columns)]): features are found by name, wherever they stand
        for c in order:
            if c not in df.columns:
                df[c] = np.arange(len(df), dtype=float)
        df = df[list(order)]
        sh.note('table_columns_in_another_order')
    ix = case.get('index')
    if ix is not None and len(df):
        # a stretch / selection of a longer table keeps its row labels: labels are positional in the statement ("first and last
        # cycle of the table"), whatever the index says
        n = len(df)
        df.index = {'offset': pd.RangeIndex(7, 7 + n), 'gaps': pd.Index(np.arange(n) * 3 + 2), 'reversed': pd.Index(np.arange(n)[::-1]),
                    'strings': pd.Index(['c%d' % i for i in range(n)])}[ix]
        sh.note('table_index=' + ix)
    out = None
    try:
        with quiet():
            out = detect_bursts_cycles(df.copy(), **thr)
    except Exception as e:
        sh.violate(case, {'mechanism': attach.exc_mechanism(e),
                          'message': 'detect_bursts_cycles raised %r on a %d-row table, thresholds %s' % (e, len(df), thr)},
                   driver)
    collect(sh, case, driver)
    if out is None:
        return None
    if ix is not None and (len(out) != len(df) or list(out.index) != list(df.index)):
        sh.violate(case, {'mechanism': 'row-labels-changed', 'message': 'detect_bursts_cycles returned rows %s for a table with rows %s'
                                                                         % (list(out.index)[:6], list(df.index)[:6])}, driver)
        return None
    lab = out['is_burst'].to_numpy().astype(bool)
    # raising any threshold or min_n_cycles can only remove labels
    for raised in case.get('raised', []):
        try:
            with quiet():
                out2 = detect_bursts_cycles(df.copy(), **raised)
        except Exception as e:
            sh.violate(case, {'mechanism': attach.exc_mechanism(e), 'message': 'raised thresholds %s: %r' % (raised, e)},
                       driver)
            continue
        collect(sh, case, driver)
        lab2 = out2['is_burst'].to_numpy().astype(bool)
        sh.note('monotone_pairs')
        if np.any(lab2 & ~lab):
            sh.violate(case, {'mechanism': 'label-added-by-raising',
                              'message': 'thresholds %s -> %s added a burst label at cycle %d'
                                         % (thr, raised, int(np.flatnonzero(lab2 & ~lab)[0]))}, driver)
    return lab


def synth_case(rng, n=None):
    n = int(rng.integers(0, 28)) if n is None else n
    t = {k: float(rng.choice([0., .2, .5, .8, 1.])) for k in THR}
    eps = float(rng.choice([2.0 ** -52, 1e-9, 1e-3]))
    cols = {}
    for f, k in zip(FEATS, THR):
        vals = [0., max(0., t[k] - eps), t[k], min(1., t[k] + eps), 1., float('nan')]
        p = np.array([.08, .12, .2, .3, .25, .05])
        cols[f] = rng.choice(vals, size=n, p=p)
    m = int(rng.integers(0, n + 2))
    if rng.random() < 0.1:
        m = float(rng.choice([0.5, 1.5, 2.5]))
    thr = dict(t, min_n_cycles=m)
    if rng.random() < 0.3:           # defaults for missing keys
        for k in list(thr):
            if rng.random() < 0.4:
                del thr[k]
    raised = []
    full = dict(refs.CYCLE_DEFAULTS)
    full.update(thr)
    for _ in range(2):
        r = dict(full)
        for k in THR:
            if rng.random() < 0.5:
                r[k] = float(min(1., r[k] + rng.choice([0., eps, .1, .3])))
        if rng.random() < 0.5:
            r['min_n_cycles'] = r['min_n_cycles'] + int(rng.integers(0, 3))
        raised.append(r)
    index = [None, None, None, 'offset', 'gaps', 'reversed', 'strings'][int(rng.integers(0, 7))]
    columns = None
    r = rng.random()
    if r < 0.3:
        columns = list(FEATS) + (['period', 'volt_amp', 'time_rdsym'] if r < 0.2 else [])
        if r < 0.08:
            columns = columns[::-1]
        elif r < 0.16:
            columns = sorted(columns)
        else:
            columns = [columns[i] for i in rng.permutation(len(columns))]
        if columns[:4] == list(FEATS):
            columns = columns[1:] + columns[:1]
    return {'table': cols, 'thresholds': thr, 'raised': raised, 'index': index, 'columns': columns}


def note_case(sh, case, lab):
    full = dict(refs.CYCLE_DEFAULTS)
    full.update(case['thresholds'])
    eq = nan = 0
    for f, k in zip(FEATS, THR):
        a = np.asarray(case['table'][f], dtype=float)
        eq += int(np.sum(a == full[k]))
        nan += int(np.sum(np.isnan(a)))
    sh.note('cells_equal_threshold', eq)
    sh.note('nan_cells', nan)
    nt = lab is not None and lab.any() and (not lab.all()) and (eq + nan) > 0
    if lab is not None and len(lab) >= 3:
        if lab[1]:
            sh.note('runs_touching_row1')
        if lab[-2]:
            sh.note('runs_touching_row_n-2')
    sh.note('rows=%s' % ('0' if lab is not None and len(lab) == 0 else '1-2' if lab is not None and len(lab) < 3 else '3+'))
    return nt


def real_case(sh, rng):
    """Table from a generated signal; thresholds equal to cells of the table."""
    case = gen.gen_pipeline_case(rng, methods=('cycles',), nsec=(1.5, 5.0))
    case['return_samples'] = True
    df, exc, delta = pipeline.run_case(sh, case, PROP, nontrivial=lambda c, d, dl: d['is_burst'].any() and not d['is_burst'].all(),
                                       totality=False)
    if df is None or len(df) < 3:
        return
    thr = {}
    for f, k in zip(FEATS, THR):
        vals = df[f].to_numpy()
        vals = vals[np.isfinite(vals) & (vals >= 0) & (vals <= 1)]
        thr[k] = float(rng.choice(vals)) if len(vals) and rng.random() < 0.7 else float(rng.choice([0, .5, .8]))
    thr['min_n_cycles'] = int(rng.integers(0, 5))
    full = dict(thr)
    raised = []
    for _ in range(2):
        r = dict(full)
        for k in THR:
            if rng.random() < 0.5:
                r[k] = float(min(1., r[k] + rng.choice([0., 1e-9, .1])))
        r['min_n_cycles'] += int(rng.integers(0, 2))
        raised.append(r)
    c2 = {'table': {f: df[f].to_numpy() for f in FEATS}, 'thresholds': thr, 'raised': raised,
          'index': [None, 'offset', 'gaps'][int(rng.integers(0, 3))]}
    lab = detect(sh, c2, 'real_table')
    nt = note_case(sh, c2, lab)
    sh.case_done(c2, nt, sample={'rows': len(df), 'thresholds': thr, 'family': case['family']})


def run(sh):
    rng = gen.rng_for(sh.seed, PROP, sh.shard)
    K = 250 if sh.tier == 'quick' else 20000
    for it in range(K):
        case = synth_case(rng)
        lab = detect(sh, case)
        nt = note_case(sh, case, lab)
        sh.case_done(case, nt, sample={'table': {f: np.asarray(case['table'][f]).tolist()[:8] for f in FEATS},
                                      'thresholds': case['thresholds']})
    # small tables exhaustively: each row is qualifying / not (values t+eps / t), n <= 8 (quick) / 11, all m
    N = 8 if sh.tier == 'quick' else 11
    tot = 0
    for n in range(0, N + 1):
        for idx in range(2 ** n):
            if idx % sh.nshards != sh.shard:
                continue
            q = [(idx >> b) & 1 for b in range(n)]
            cols = {f: np.array([0.6 if v else 0.5 for v in q]) for f in FEATS}
            for m in range(0, n + 2):
                case = {'table': cols, 'thresholds': {k: 0.5 for k in THR}, 'raised': []}
                case['thresholds']['min_n_cycles'] = m
                detect(sh, case, 'exhaustive')
                tot += 1
    sh.cases += tot
    sh.exhaustive['qualifying_patterns_len<=%d_x_m<=len+1' % N] = {'cases': tot}
    R = 25 if sh.tier == 'quick' else 800
    for it in range(R):
        real_case(sh, rng)
    for k, v in attach.COUNTS.items():
        if k.startswith('C06:'):
            sh.classes[k[4:]] = v


_run_generated = run


def run(sh):      # noqa: F811 - thorough tier: the repository's own tests are one more workload for the same monitors
    _run_generated(sh)
    if sh.tier == 'thorough' and sh.shard == 0:
        from .. import repotests
        repotests.run(sh, PROP)


def replay(sh, driver, case):
    if 'table' in case:
        lab = detect(sh, case, driver)
        sh.case_done(case, True)
    else:
        pipeline.run_case(sh, case, PROP, driver=driver, totality=False)
