"""C07 - amplitude burst labels follow the dual-threshold rule."""
import numpy as np
import pandas as pd

from .. import attach, gen, monitors, pipeline
from ..runner import quiet

PROP = 'C07'


def setup(sh):
    monitors.install_pipeline()


def nontrivial(case, df, delta):
    bf = df['burst_fraction'].to_numpy()
    lab = df['is_burst'].to_numpy().astype(bool)
    return bool(np.any((bf > 0) & (bf < 1))) and lab.any() and not lab.all()


def labels_direct(sh, rng):
    """detect_bursts_amp on synthetic burst fractions with values on the threshold; monotone in the threshold."""
    from bycycle.burst import detect_bursts_amp
    n = int(rng.integers(0, 30))
    t = float(rng.choice([0., .25, .5, .75, 1.]))
    eps = float(rng.choice([2.0 ** -52, 1e-9, 1e-3]))
    vals = [0., max(0., t - eps), t, min(1., t + eps), 1.]
    bf = rng.choice(vals, size=n, p=[.15, .2, .25, .2, .2])
    m = int(rng.integers(0, n + 2))
    if rng.random() < 0.25:
        m = float(rng.choice([0.5, 1.5, 2.4, 2.5, 3.5, 4.4]))          # a real-valued minimum: a run qualifies iff its length >= m
        sh.note('fractional_min_n_cycles')
    case = {'burst_fraction': bf, 'burst_fraction_threshold': t, 'min_n_cycles': m}
    run_labels(sh, case)


def run_labels(sh, case, driver='labels_direct'):
    from bycycle.burst import detect_bursts_amp
    bf = np.asarray(case['burst_fraction'], dtype=float)
    t, m = case['burst_fraction_threshold'], case['min_n_cycles']
    labs = []
    for thr in (t, min(1., t + 1e-9), min(1., t + .25)):
        try:
            with quiet():
                out = detect_bursts_amp(pd.DataFrame({'burst_fraction': bf}), burst_fraction_threshold=thr, min_n_cycles=m)
            labs.append(out['is_burst'].to_numpy().astype(bool))
        except Exception as e:
            sh.violate(case, {'mechanism': attach.exc_mechanism(e), 'message': 'detect_bursts_amp raised %r' % (e,)}, driver)
            labs.append(None)
    for v in attach.take_violations():
        if v['property'] in (PROP, '_monitor'):
            sh.violate(case, v, driver)
    if labs[0] is not None:
        for l2 in labs[1:]:
            if l2 is not None and np.any(l2 & ~labs[0]):
                sh.violate(case, {'mechanism': 'label-added-by-raising',
                                  'message': 'raising burst_fraction_threshold added a label'}, driver)
        sh.note('direct_label_tables')
    lab = labs[0]
    sh.case_done(case, lab is not None and lab.any() and not lab.all() and bool(np.any(bf == t)),
                 sample={'burst_fraction': bf.tolist()[:10], 'threshold': t, 'min_n_cycles': m})


def run(sh):
    rng = gen.rng_for(sh.seed, PROP, sh.shard)
    K = 45 if sh.tier == 'quick' else 2000
    fams = ['bursty', 'bursty', 'bursty', 'oscnoise', 'noise', 'asine', 'zeroed', 'sum', 'chirp', 'quant', 'dc']
    for it in range(K):
        case = gen.gen_pipeline_case(rng, families=fams, methods=('amp',), nsec=(2.0, 8.0))
        if rng.random() < 0.8:
            case['return_samples'] = True
        df, exc, delta = pipeline.run_case(sh, case, PROP, api='func' if rng.random() < 0.8 else 'obj',
                                           nontrivial=nontrivial, totality=False)
        sh.note('route:%s' % case.get('route'))
    for it in range(100 if sh.tier == 'quick' else 5000):
        labels_direct(sh, rng)
    for k, v in attach.COUNTS.items():
        if k.startswith('C07:'):
            sh.classes[k[4:]] = v


_run_generated = run


def run(sh):      # noqa: F811 - thorough tier: the repository's own tests are one more workload for the same monitors
    _run_generated(sh)
    if sh.tier == 'thorough' and sh.shard == 0:
        from .. import repotests
        repotests.run(sh, PROP)


def replay(sh, driver, case):
    if 'burst_fraction' in case:
        run_labels(sh, case, driver)
    else:
        pipeline.run_case(sh, case, PROP, driver=driver, nontrivial=nontrivial, totality=False)
