"""C08 - minimum-run filter removes exactly the short bursts."""
import itertools

import numpy as np

from .. import attach, gen, monitors

PROP = 'C08'


def setup(sh):
    monitors.install_pipeline()


LAYOUTS = ('c', 'strided', 'reversed', 'column')


def laid_out(arr, layout):
    """The same boolean values in another memory layout (a view of a larger / reversed / 2-D buffer)."""
    x = np.array(arr, dtype=bool)
    if layout == 'strided':
        buf = np.zeros(2 * len(x), dtype=bool)
        buf[::2] = x
        buf[1::2] = ~x
        return buf[::2]
    if layout == 'reversed':
        return np.array(x[::-1], copy=True)[::-1]
    if layout == 'column':
        buf = np.zeros((len(x), 3), dtype=bool)
        buf[:, 1] = x
        buf[:, 2] = ~x
        return buf[:, 1]
    return x


def one(sh, arr, m, driver='array', layout='c'):
    from bycycle.burst.utils import check_min_burst_cycles
    case = {'is_burst': arr, 'min_n_cycles': m, 'layout': layout}
    x = laid_out(arr, layout)
    if layout != 'c':
        attach.count('C08:layout=' + layout)
    vs = []
    try:
        out = check_min_burst_cycles(x, min_n_cycles=m)
    except Exception as e:
        out = None
        if m >= 0 or not isinstance(e, ValueError):
            vs.append({'mechanism': attach.exc_mechanism(e),
                       'message': 'check_min_burst_cycles raised %r for m=%r' % (e, m)})
    else:
        if m < 0 and len(arr) > 0:
            vs.append({'mechanism': 'negative-min-n-cycles-accepted', 'message': 'm=%r accepted' % (m,)})
    vs += [v for v in attach.take_violations() if v['property'] in (PROP, '_monitor')]
    if out is not None and not vs:
        # idempotence, checked by the driver (second monitored execution)
        once = np.array(out, copy=True)
        twice = check_min_burst_cycles(laid_out(once.tolist(), layout), min_n_cycles=m)
        vs += [v for v in attach.take_violations() if v['property'] in (PROP, '_monitor')]
        if not np.array_equal(once, twice):
            vs.append({'mechanism': 'not-idempotent', 'message': 'f(f(x)) != f(x) for m=%r x=%s' % (m, arr)})
    for v in vs:
        sh.violate(case, v, driver)
    return out


def nontrivial(arr):
    lens = set()
    i, n = 0, len(arr)
    while i < n:
        if arr[i]:
            j = i
            while j < n and arr[j]:
                j += 1
            lens.add(j - i)
            i = j
        else:
            i += 1
    return len(lens) >= 2


def run(sh):
    N = 12 if sh.tier == 'quick' else 18
    total = nt = 0
    # exhaustive: all boolean arrays of length 0..N, all m in 0..N+1; sharded by array index
    for n in range(0, N + 1):
        for idx in range(2 ** n):
            if idx % sh.nshards != sh.shard:
                continue
            arr = [bool((idx >> b) & 1) for b in range(n)]
            isnt = nontrivial(arr)
            for m in range(0, n + 2):
                one(sh, arr, m, 'exhaustive')
                total += 1
                # the same array as a non-contiguous view: all three kinds for short arrays, one (rotating) beyond
                for li, lay in enumerate(LAYOUTS[1:]):
                    if n <= 8 or (idx + m) % 3 == li:
                        one(sh, arr, m, 'exhaustive', lay)
                        total += 1
            if isnt:
                nt += 1
                sh.nontrivial.add('x%d:%d' % (n, idx))
    sh.cases += total
    sh.note('exhaustive_cases', total)
    sh.exhaustive['arrays_len<=%d_x_m<=len+1' % N] = {'cases': total, 'nontrivial_arrays': nt}
    sh.samples.append({'is_burst': '0110111', 'min_n_cycles': 3, 'space': 'all arrays up to length %d' % N})
    # random long arrays with geometric run lengths, non-integer / infinite / negative m
    rng = gen.rng_for(sh.seed, PROP, sh.shard)
    K = 300 if sh.tier == 'quick' else 6000
    for it in range(K):
        n = int(rng.integers(1, 2000))
        p = rng.uniform(0.05, 0.6)
        arr = []
        v = bool(rng.random() < 0.5)
        while len(arr) < n:
            arr.extend([v] * int(rng.geometric(p)))
            v = not v
        arr = arr[:n]
        r = rng.random()
        if r < 0.6:
            m = int(rng.integers(0, 12))
        elif r < 0.8:
            m = float(rng.choice([0.5, 1.5, 2.5, 3.0, 7.25]))
        elif r < 0.9:
            m = float('inf')
        else:
            m = -int(rng.integers(1, 4))
        if isinstance(m, int) and m >= 0 and rng.random() < 0.3:
            m = [np.uint8, np.uint16, np.uint64, np.int8, np.int64, np.float32][int(rng.integers(0, 6))](min(m, 100))      # the same number as a NumPy scalar
            attach.count('C08:min_n_cycles_as_numpy_scalar')
        one(sh, arr, m, 'random', LAYOUTS[int(rng.integers(0, 4))])
        sh.note('random:m=%s' % ('neg' if m < 0 else 'inf' if m == float('inf') else type(m).__name__))
        sh.case_done(None, nontrivial(arr), key='r%d:%d' % (sh.shard, it))
    sh.samples.append({'is_burst_len': n, 'min_n_cycles': float(m), 'space': 'random geometric runs'})
    for k, v in attach.COUNTS.items():
        if k.startswith('C08:'):
            sh.classes[k[4:]] = v


_run_generated = run


def run(sh):      # noqa: F811 - thorough tier: the repository's own tests are one more workload for the same monitors
    _run_generated(sh)
    if sh.tier == 'thorough' and sh.shard == 0:
        from .. import repotests
        repotests.run(sh, PROP)


def replay(sh, driver, case):
    one(sh, [bool(v) for v in case['is_burst']], case['min_n_cycles'], driver, case.get('layout', 'c'))
    sh.case_done(case, True)
