"""C09 - peak- and trough-centred analyses are mirror images."""
import copy
import math

import numpy as np

from .. import attach, gen, monitors, pipeline, refs

PROP = 'C09'

# trough-centred column  <-  (column of the peak-centred table of -sig, transform)
SAME, NEG, ONE_MINUS = 'same', 'neg', '1-x'
MAP = {
    'sample_trough': ('sample_peak', SAME), 'sample_last_peak': ('sample_last_trough', SAME),
    'sample_next_peak': ('sample_next_trough', SAME), 'sample_zerox_decay': ('sample_zerox_rise', SAME),
    'sample_zerox_rise': ('sample_zerox_decay', SAME), 'sample_last_zerox_rise': ('sample_last_zerox_decay', SAME),
    'period': ('period', SAME), 'time_trough': ('time_peak', SAME), 'time_peak': ('time_trough', SAME),
    'time_decay': ('time_rise', SAME), 'time_rise': ('time_decay', SAME), 'volt_decay': ('volt_rise', SAME),
    'volt_rise': ('volt_decay', SAME), 'volt_amp': ('volt_amp', SAME), 'volt_trough': ('volt_peak', NEG),
    'volt_peak': ('volt_trough', NEG), 'time_rdsym': ('time_rdsym', ONE_MINUS), 'time_ptsym': ('time_ptsym', ONE_MINUS),
    'band_amp': ('band_amp', SAME), 'amp_fraction': ('amp_fraction', SAME), 'amp_consistency': ('amp_consistency', SAME),
    'period_consistency': ('period_consistency', SAME), 'monotonicity': ('monotonicity', SAME),
    'burst_fraction': ('burst_fraction', SAME), 'is_burst': ('is_burst', SAME),
}
APPROX = {'time_rdsym', 'time_ptsym', 'amp_fraction', 'amp_consistency', 'period_consistency', 'monotonicity',
          'burst_fraction', 'band_amp'}


def setup(sh):
    monitors.install_pipeline()


def compare(dft, dfp):
    """First difference between the trough table and the image of the peak table of -sig (None if mirror)."""
    if len(dft) != len(dfp):
        return 'row-count', 'trough-centred %d rows, mirrored peak-centred %d rows' % (len(dft), len(dfp))
    exp_cols = set()
    for c in dfp.columns:
        for tc, (pc, _) in MAP.items():
            if pc == c:
                exp_cols.add(tc)
    if set(dft.columns) != exp_cols:
        return 'columns', 'trough table columns %s vs expected %s' % (sorted(set(dft.columns) ^ exp_cols), '')
    for tc in dft.columns:
        pc, tr = MAP[tc]
        a = dft[tc].to_numpy()
        b = dfp[pc].to_numpy()
        for i in range(len(a)):
            x, y = a[i], b[i]
            if tc == 'is_burst' or tc.startswith('sample_'):
                if int(x) != int(y):
                    return 'cell:' + tc, 'row %d %s: trough-centred %r, mirrored %r' % (i, tc, x, y)
                continue
            x, y = float(x), float(y)
            if tr == NEG:
                y = -y
            elif tr == ONE_MINUS:
                y = 1 - y
            ok = refs.same_float(x, y, 1e-12 if tc == 'band_amp' else refs.ULP_TOL) if tc in APPROX else \
                (x == y or (math.isnan(x) and math.isnan(y)))
            if not ok:
                return 'cell:' + tc, 'row %d %s: trough-centred %r, mirrored %r' % (i, tc, x, y)
    return None


def one(sh, case, driver='generated'):
    ct = dict(case, center_extrema='trough')
    cp = dict(case, center_extrema='peak', sig=-monitors.real(case['sig']))
    dft, et = pipeline.call(ct)
    dfp, ep = pipeline.call(cp)
    others = attach.take_violations()
    for v in others:
        sh.note('definitional_alarm:' + v['property'])      # C05/C07 oracles pin down which member is wrong
    vs = [v for v in others if v['property'] == '_monitor']
    nt = False
    if (et is None) != (ep is None):
        vs.append({'mechanism': 'one-member-raised',
                   'message': 'trough-centred: %r; peak-centred on the negated signal: %r' % (et, ep)})
    elif et is not None:
        sh.note('both_raised:' + type(et).__name__)
    else:
        d = compare(dft, dfp)
        sh.note('pairs_compared:' + str(case['burst_method']))
        if d is not None:
            pin = sorted({v['property'] for v in others if v['property'] != '_monitor'})
            vs.append({'mechanism': 'mirror-' + d[0], 'message': d[1] + (' [definitional oracles fired: %s]' % pin if pin else '')})
        lab = dft['is_burst'].to_numpy().astype(bool)
        nt = len(dft) >= 5 and case.get('family') not in ('sine',) and bool(np.any(lab[1:] != lab[:-1]))
    for v in vs:
        sh.violate(case, v, driver)
    sh.note('family:' + str(case.get('family')))
    sh.case_done(case, nt, sample=pipeline.sample_of(case))


def run(sh):
    rng = gen.rng_for(sh.seed, PROP, sh.shard)
    K = 30 if sh.tier == 'quick' else 1500
    fams = ['asine', 'bursty', 'noise', 'sum', 'chirp', 'quant', 'clip', 'zeroed', 'dc', 'oscnoise', 'tail', 'plateau',
            'asine', 'bursty', 'oscnoise', 'sine']
    for it in range(K):
        case = gen.gen_pipeline_case(rng, families=fams)
        one(sh, case)


def replay(sh, driver, case):
    one(sh, case, driver)
