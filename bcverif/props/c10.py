"""C10 - results are covariant with amplitude and sampling-rate units."""
import copy
import math

import numpy as np

from .. import attach, gen, monitors, pipeline, refs

PROP = 'C10'
VOLT = {'volt_peak', 'volt_trough', 'volt_rise', 'volt_decay', 'volt_amp', 'band_amp'}


def setup(sh):
    monitors.install_pipeline()


def compare(df0, df1, a):
    """df1 must be df0 with voltage columns multiplied by a (a=1: identical)."""
    if len(df0) != len(df1):
        return 'row-count', '%d rows vs %d rows' % (len(df0), len(df1))
    if list(df0.columns) != list(df1.columns):
        return 'columns', 'column sets differ'
    for c in df0.columns:
        x = df0[c].to_numpy()
        y = df1[c].to_numpy()
        for i in range(len(x)):
            u, v = float(x[i]), float(y[i])
            if c in VOLT:
                u = u * a
                ok = refs.same_float(u, v, 1e-12) if c == 'band_amp' else (u == v)
            elif c == 'is_burst' or c.startswith('sample_') or c in ('period', 'time_rise', 'time_decay', 'time_peak',
                                                                      'time_trough'):
                ok = (u == v)
            else:
                ok = (u == v) or (math.isnan(u) and math.isnan(v)) or refs.same_float(u, v)
            if not ok:
                return 'cell:' + c, 'row %d %s: %r (expected from the base run) vs %r' % (i, c, u, v)
    return None


def one(sh, case, driver='generated'):
    a = case['a']
    c = case['c']
    # a script that writes its options once passes the SAME dictionaries to the base and to the transformed analyses
    shared = pipeline.fresh_options(case) if case.get('share_options') else None
    base, e0 = pipeline.call(case, shared=shared)
    sign0 = None
    r = monitors.REC.get('filter')
    if r is not None:
        sign0 = (r['out'] > 0)
    scaled = dict(case, sig=np.asarray(case['sig']) * a)
    dfa, ea = pipeline.call(scaled, shared=shared)
    r = monitors.REC.get('filter')
    if r is not None and sign0 is not None and len(sign0) == len(r['out']):
        sh.note('same_sign_sequence_of_bandpassed_signal' if np.array_equal(sign0, r['out'] > 0)
                else 'different_sign_sequence')
    rate = dict(case, fs=case['fs'] * c, f_range=(case['f_range'][0] * c, case['f_range'][1] * c))
    dfc, ec = pipeline.call(rate, shared=shared)
    others = attach.take_violations()
    vs = [v for v in others if v['property'] == '_monitor']
    nt = False
    if e0 is not None:
        sh.note('base_raised:' + type(e0).__name__)
        if ea is None or ec is None:
            vs.append({'mechanism': 'only-base-raised', 'message': 'base run raised %r, transformed runs did not' % (e0,)})
    else:
        for name, df, e, fac in (('amplitude x%g' % a, dfa, ea, a), ('rate x%g' % c, dfc, ec, 1.0)):
            kind = name.split()[0]
            if e is not None:
                if attach.raised_inside(e, 'neurodsp/filt/'):
                    # the filter design of the trusted base rejects the transformed configuration (e.g. "Invalid
                    # transition band" at very low sampling rates): outside the domain of the statement
                    sh.note('transformed_run_outside_filter_domain:' + kind)
                    continue
                vs.append({'mechanism': kind + '-run-raised', 'message': '%s: %r' % (name, e)})
                continue
            d = compare(base, df, fac)
            sh.note('compared:' + kind)
            if d is not None:
                vs.append({'mechanism': '%s-%s' % (kind, d[0]), 'message': '%s: %s' % (name, d[1])})
        nt = len(base) >= 5 and bool(base['is_burst'].any())
    for v in vs:
        sh.violate(case, v, driver)
    k2 = int(round(math.log2(a)))
    sh.note('a=2^[%s]' % ('<-26' if k2 < -26 else '-26..-11' if k2 < -10 else '-10..10' if k2 <= 10 else '11..26' if k2 <= 26 else '>26'))
    sh.note('c=%g' % c)
    sh.note('options=%s' % ('shared_objects' if shared is not None else 'fresh_copies'))
    sh.case_done(case, nt, sample=pipeline.sample_of(case))


def run(sh):
    rng = gen.rng_for(sh.seed, PROP, sh.shard)
    K = 22 if sh.tier == 'quick' else 1000
    for it in range(K):
        if rng.random() < 0.2:
            # slow rhythms (band edge below 1 Hz) with the amplitude method: "so many cycles" and "so many seconds" differ most here
            case = gen.gen_pipeline_case(rng, families=['bursty', 'bursty', 'oscnoise'], methods=('amp',), low=1.0)
            sh.note('slow_rhythm_amplitude_method')
        else:
            case = gen.gen_pipeline_case(rng)
        r_ = rng.random()
        case['a'] = 2.0 ** float(rng.integers(-10, 11) if r_ < 0.45 else (rng.integers(-60, 61) if r_ < 0.8 else
                                                                          rng.choice([-1, 1]) * rng.integers(53, 63)))      # below / above machine epsilon
        case['c'] = float(rng.choice([.25, .5, 2., 4.]))
        case['share_options'] = bool(rng.random() < 0.5)
        # filter length in cycles; durations in seconds are not part of the rate statement
        fek = case.get('find_extrema_kwargs')
        if fek and 'n_seconds' in (fek.get('filter_kwargs') or {}):
            fek['filter_kwargs'] = {'n_cycles': 3}
        bk = case.get('burst_kwargs')
        if bk:
            bk.pop('min_burst_duration', None)
        one(sh, case)


def replay(sh, driver, case):
    one(sh, case, driver)
