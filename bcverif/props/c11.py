"""C11 - 2-D group analysis equals per-signal analysis, in order."""
import copy
import itertools
import os

import numpy as np

from .. import attach, gen, pipeline, poollog
from ..runner import quiet, guarded

PROP = 'C11'
OPT_KEYS = ('center_extrema', 'burst_method', 'burst_kwargs', 'threshold_kwargs', 'find_extrema_kwargs')


def setup(sh):
    poollog.install()


def gen_rows(rng, n, nsamp, fs, lo, hi):
    fams = ['asine', 'bursty', 'noise', 'sum', 'chirp', 'oscnoise', 'quant', 'dc', 'sine', 'clip']
    rows = []
    for i in range(n):
        s, _ = gen.gen_signal(rng, fs, lo, hi, nsamp / fs, fams[int(rng.integers(0, len(fams)))])
        rows.append(s[:nsamp] + 1e-3 * (i + 1))          # pairwise different by construction
    return np.array(rows)


def gen_row_opts(rng, lo):
    o = {}
    if rng.random() < 0.7:
        o['center_extrema'] = str(rng.choice(['peak', 'trough']))
    if rng.random() < 0.5:
        thr, bk, _ = gen.gen_amp_options(rng, lo)
        o['burst_method'] = 'amp'
        o['threshold_kwargs'] = thr
        if bk is not None:
            o['burst_kwargs'] = bk
    else:
        o['threshold_kwargs'] = gen.gen_thresholds_cycles(rng, full=rng.random() < 0.6)
    if rng.random() < 0.35:
        fek = gen.gen_find_extrema_kwargs(rng, 250., lo, allow_none=False)       # with / without 'filter_kwargs', boundary, pad
        if fek.get('boundary', 0) > 12:
            fek['boundary'] = 12
        o['find_extrema_kwargs'] = fek
    if rng.random() < 0.25:
        o['return_samples'] = bool(rng.random() < 0.5)         # documented to be ignored
    return o


def reference(sig, fs, f_range, opts, return_samples):
    """The per-signal analysis: the real compute_features, in-process, on row i with options i."""
    from bycycle.features import compute_features
    o = copy.deepcopy(opts or {})
    o.pop('return_samples', None)
    with quiet():
        return compute_features(np.array(sig, copy=True), fs, f_range, return_samples=return_samples, **o)


def run_one(sh, case, driver='generated'):
    from bycycle.group import compute_features_2d
    from bycycle import BycycleGroup
    sigs = np.asarray(case['sigs'])
    n = len(sigs)
    fs, f_range = case['fs'], tuple(case['f_range'])
    kw = case['kwargs']
    rs = case['return_samples']
    keys = [poollog.sig_key(r) for r in sigs]
    delays = {keys[i]: float(d) for i, d in enumerate(case['delays'])}
    per_row = kw if isinstance(kw, list) else [kw] * n
    vs = []
    try:
        refs_ = [reference(sigs[i], fs, f_range, per_row[i], rs) for i in range(n)]
    except Exception as e:
        sh.note('reference_raised:' + type(e).__name__)
        sh.case_done(case, False)
        return
    res = None
    events = []
    api = case.get('api', 'func')
    # the optional tqdm package is not installed here: half of the progress runs get a minimal stand-in on sys.path so
    # that the progress-bar branch itself (not only its ImportError fallback) is exercised
    import sys
    fake = os.path.join(os.path.dirname(os.path.dirname(os.path.abspath(__file__))), 'fake_tqdm')
    use_fake = bool(case.get('fake_tqdm')) and case['progress'] is not None
    if use_fake:
        sys.path.insert(0, fake)
        sh.note('progress_bar_branch_with_tqdm_stand_in')
    else:
        for m in [m for m in sys.modules if m == 'tqdm' or m.startswith('tqdm.')]:
            del sys.modules[m]
    bg_pre = None
    if api == 'obj' and case.get('set_attrs'):
        try:
            with quiet():
                bg_pre = BycycleGroup()
                if case['set_attrs'] == 'after_a_fit':          # not part of the observed pool run
                    bg_pre.fit(np.array(sigs, copy=True), fs, f_range, axis=0, n_jobs=1)
        except Exception:
            sh.note('default_fit_raised')
            bg_pre = BycycleGroup()
    opts = copy.deepcopy(kw)
    for dst, src in (case.get('alias') or []):
        opts[dst] = opts[src]               # one dict object at both positions (equal values by construction)
        sh.note('option_list_with_one_object_at_several_positions')
    if api == 'func' and case.get('reuse_options'):
        # the caller keeps its option objects: an earlier (unobserved) call with the SAME objects precedes the observed one
        try:
            with quiet():
                compute_features_2d(np.array(sigs, copy=True), fs, f_range, compute_features_kwargs=opts, axis=0, return_samples=rs, n_jobs=1)
            sh.note('second_call_with_the_same_option_objects')
        except Exception:
            sh.note('first_call_raised')
    with poollog.Session(os.environ.get('BCVERIF_WORK', '/tmp'), delays) as ses:
        try:
            with quiet():
                if api == 'func':
                    arr = np.asfortranarray(np.array(sigs, copy=True)) if case.get('layout') == 'F' else np.array(sigs, copy=True)
                    res = compute_features_2d(arr, fs, f_range, compute_features_kwargs=opts,
                                              axis=0, return_samples=rs, n_jobs=case['n_jobs'], progress=case['progress'])
                else:
                    o = copy.deepcopy(kw) or {}
                    if case.get('set_attrs'):
                        # the options are given through the object's public attributes after construction (first a fit with
                        # the defaults, in half of the cases), not through the constructor
                        bg = bg_pre
                        bg.center_extrema = o.get('center_extrema', 'peak')
                        bg.burst_method = o.get('burst_method', 'cycles')
                        bg.burst_kwargs = o.get('burst_kwargs') or {}
                        if o.get('threshold_kwargs') is not None:
                            bg.thresholds = o['threshold_kwargs']
                        elif bg.burst_method == 'amp':
                            bg.thresholds = {'burst_fraction_threshold': 1, 'min_n_cycles': 3}      # the documented defaults of the method
                        if o.get('find_extrema_kwargs') is not None:
                            bg.find_extrema_kwargs = o['find_extrema_kwargs']
                        bg.return_samples = rs
                        sh.note('options_set_as_attributes:' + case['set_attrs'])
                    else:
                        bg = BycycleGroup(center_extrema=o.get('center_extrema', 'peak'), burst_method=o.get('burst_method', 'cycles'),
                                          burst_kwargs=o.get('burst_kwargs'), thresholds=o.get('threshold_kwargs'),
                                          find_extrema_kwargs=o.get('find_extrema_kwargs'), return_samples=rs)
                    arr = np.array(sigs, copy=True)
                    if case.get('buffer_history'):
                        # the same array OBJECT was fitted before while it held other samples (a re-used acquisition buffer)
                        saved = dict(poollog.STATE)
                        poollog.STATE['log'], poollog.STATE['delays'] = None, {}
                        try:
                            arr[...] = sigs[::-1]
                            bg.fit(arr, fs, f_range, axis=0, n_jobs=1)
                            sh.note('group_object_fitted_before_on_the_same_array_object')
                        except Exception:
                            sh.note('group_object_first_fit_raised')
                        finally:
                            poollog.STATE.update(saved)
                            arr[...] = sigs
                    bg.fit(arr, fs, f_range, axis=0, n_jobs=case['n_jobs'], progress=case['progress'])
                    res = bg.df_features
                    for i in range(n):
                        if bg.models[i].df_features is not res[i] and poollog.tables_equal(bg.models[i].df_features, res[i]):
                            vs.append({'mechanism': 'models-do-not-mirror-df_features', 'message': 'models[%d] table differs' % i})
                        if not np.array_equal(bg.models[i].sig, sigs[i]):
                            vs.append({'mechanism': 'models-do-not-mirror-sigs', 'message': 'models[%d].sig is not row %d' % (i, i)})
        except Exception as e:
            vs.append({'mechanism': attach.exc_mechanism(e), 'message': 'group call raised %r' % (e,)})
        events = ses.events()
    if use_fake:
        sys.path.remove(fake)
        for m in [m for m in sys.modules if m == 'tqdm' or m.startswith('tqdm.')]:
            del sys.modules[m]
    if res is not None:
        if len(res) != n:
            vs.append({'mechanism': 'result-length', 'message': '%d tables for %d rows' % (len(res), n)})
        else:
            for i in range(n):
                d = poollog.tables_equal(res[i], refs_[i])
                if d is not None:
                    found = [j for j in range(n) if poollog.tables_equal(res[i], refs_[j]) is None]
                    vs.append({'mechanism': 'position-%s' % ('holds-other-row' if found else 'differs-from-per-signal-analysis'),
                               'message': 'position %d of %d: %s%s (n_jobs=%s, options %s)'
                                          % (i, n, d, '; it equals the analysis of row %s' % found if found else '',
                                             case['n_jobs'], 'list' if isinstance(kw, list) else type(kw).__name__)})
                    break
        # offline check of the event log: every row analysed exactly once, with its own options
        wev = [e for e in events if e['f'] == 'compute_features' and e.get('worker')]
        sh.note('worker_events', len(wev))
        attach.count('eval:pool_worker_events', len(wev))
        cnt = {}
        for e in wev:
            cnt[e['key']] = cnt.get(e['key'], 0) + 1
        for i, k in enumerate(keys):
            if cnt.get(k, 0) != 1:
                vs.append({'mechanism': 'row-analysed-%d-times' % cnt.get(k, 0),
                           'message': 'row %d was analysed %d times by the workers' % (i, cnt.get(k, 0))})
                break
        exp_opt = {}
        for i in range(n):
            o = copy.deepcopy(per_row[i] or {})
            o.pop('return_samples', None)
            o['return_samples'] = rs
            exp_opt[keys[i]] = poollog.opt_key(o)
        for e in wev:
            if api == 'obj':
                break       # the object passes its (default-expanded) settings explicitly; results decide
            if e['status'] == 'ok' and e['key'] in exp_opt and e['opt'] != exp_opt[e['key']]:
                vs.append({'mechanism': 'row-analysed-with-other-options',
                           'message': 'row %d analysed with options %s' % (keys.index(e['key']), e.get('opts'))})
                break
        order = poollog.completion_order(events, keys)
        sh.note('pids=%d' % len({e['pid'] for e in wev}))
        if len(order) == n:
            sh.extra.setdefault('orders', set()).add(tuple(order))
            if order != sorted(order):
                sh.note('runs_completing_out_of_submission_order')
    for v in vs:
        sh.violate(case, v, driver)
    sh.note('n_jobs=%s' % case['n_jobs'])
    sh.note('progress=%s' % case['progress'])
    sh.note('kwargs=%s' % ('list' if isinstance(kw, list) else type(kw).__name__))
    sh.note('api=' + api)
    sh.note('dtype=' + np.asarray(case['sigs']).dtype.name)
    nt = res is not None and n >= 2 and len(events) > 0
    sample = {k: case[k] for k in ('fs', 'f_range', 'n_jobs', 'progress', 'return_samples', 'delays')}
    sample['sigs'] = 'array%s' % (list(sigs.shape),)
    sample['kwargs'] = kw if not isinstance(kw, list) else kw[:2] + ['...']
    sh.case_done(case, nt, sample=sample)


def make_case(rng, n, order=None, n_jobs=None, api='func'):
    fs, lo, hi = gen.gen_config(rng, small=True)
    nsamp = int(fs * rng.uniform(1.5, 3.0))
    sigs = gen_rows(rng, n, nsamp, fs, lo, hi)
    if rng.random() < 0.2:
        sigs = sigs.astype(np.float32)          # single-precision recordings: each row is analysed as it is, alone or in the group
    r = rng.random()
    if api == 'obj' or r < 0.3:
        kw = gen_row_opts(rng, lo)
        kw.pop('return_samples', None) if api == 'obj' else None
    elif r < 0.4:
        kw = None
    else:
        kw = [gen_row_opts(rng, lo) for _ in range(n)]
    alias = None
    if isinstance(kw, list) and len(kw) >= 2 and rng.random() < 0.35:
        # the list was built from a few dict OBJECTS used at several positions (first and last the same object)
        alias = [[len(kw) - 1, 0]]
        kw[-1] = copy.deepcopy(kw[0])
    if order is None:
        order = list(rng.permutation(n))
    # completion order: row order[0] finishes first ... (delays in steps of 40 ms)
    delays = [0.0] * n
    for rank, row in enumerate(order):
        delays[int(row)] = 0.04 * rank
    if n_jobs is None:
        n_jobs = int(rng.choice([1, 2, 3, n, n + 3, -1]))
    return dict(sigs=sigs, fs=fs, f_range=(lo, hi), kwargs=kw, return_samples=bool(rng.random() < 0.7),
                n_jobs=n_jobs, progress=[None, None, 'tqdm', 'tqdm.notebook'][int(rng.integers(0, 4))],
                delays=delays, api=api, alias=alias, buffer_history=bool(rng.random() < 0.5), set_attrs=(None if api != 'obj' else [None, 'before_first_fit', 'after_a_fit'][int(rng.integers(0, 3))]), reuse_options=bool(rng.random() < 0.35), fake_tqdm=bool(rng.random() < 0.5), layout=['C', 'C', 'F'][int(rng.integers(0, 3))])


def run(sh):
    rng = gen.rng_for(sh.seed, PROP, sh.shard)
    # schedule exploration: chosen completion orders with n_jobs >= n
    if sh.tier == 'quick':
        perms = [p for i, p in enumerate(itertools.permutations(range(4))) if i % sh.nshards == sh.shard][:3]
    else:
        perms = [p for i, p in enumerate(list(itertools.permutations(range(4))) + list(itertools.permutations(range(5))))
                 if i % sh.nshards == sh.shard]
    for p in perms:
        guarded(sh, run_one, sh, make_case(rng, len(p), order=list(p), n_jobs=len(p)), 'schedule')
    K = 4 if sh.tier == 'quick' else 200
    for it in range(K):
        n = int(rng.integers(2, 9 if sh.tier == 'quick' else 13))
        guarded(sh, run_one, sh, make_case(rng, n, api='func' if rng.random() < 0.75 else 'obj'))
    # every shard: an array with a single row (both APIs), sample columns not requested
    c = make_case(rng, 1, api='func' if sh.shard % 2 == 0 else 'obj')
    c['return_samples'] = False
    guarded(sh, run_one, sh, c, 'single_row')
    sh.note('single_row_array')
    # every shard: the object with its options assigned as attributes, once before any fit and once after a default fit
    for how in ('before_first_fit', 'after_a_fit'):
        c = make_case(rng, int(rng.integers(2, 6)), api='obj')
        c['set_attrs'] = how
        guarded(sh, run_one, sh, c, 'attributes')
    if sh.tier == 'thorough':
        # slow first row, fast rest, worker reuse
        for it in range(3):
            c = make_case(rng, 12, order=list(range(1, 12)) + [0], n_jobs=int(rng.choice([2, 3, 4])))
            guarded(sh, run_one, sh, c, 'slow_first')
    orders = sh.extra.pop('orders', set())
    sh.extra['distinct_completion_orders'] = len(orders)
    sh.extra['completion_orders_sample'] = [list(o) for o in sorted(orders)[:6]]
    sh.note('distinct_completion_orders_in_shard', len(orders))


def replay(sh, driver, case):
    run_one(sh, case, driver)
    sh.extra.pop('orders', None)
