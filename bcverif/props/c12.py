"""C12 - 3-D group results sit at the position of their signal."""
import copy
import os

import numpy as np

from .. import attach, gen, poollog
from ..runner import quiet, guarded
from .c11 import gen_row_opts, gen_rows

PROP = 'C12'


def setup(sh):
    poollog.install()


def ref_signal(sig, fs, f_range, opts, rs):
    from bycycle.features import compute_features
    o = copy.deepcopy(opts or {})
    o.pop('return_samples', None)
    with quiet():
        return compute_features(np.array(sig, copy=True), fs, f_range, return_samples=rs, **o)


def ref_slice(sl, fs, f_range, opts, rs):
    """Flattened-epoch analysis of one 2-D slice: the real compute_features_2d(axis=None), in-process."""
    from bycycle.group import compute_features_2d
    with quiet():
        return compute_features_2d(np.array(sl, copy=True), fs, f_range, compute_features_kwargs=copy.deepcopy(opts),
                                   axis=None, return_samples=rs, n_jobs=1)


def expected(case):
    """Nested list [i][j] of reference tables according to the documented placement."""
    sigs = np.asarray(case['sigs'])
    n0, n1 = sigs.shape[:2]
    fs, fr, rs, kw, axis = case['fs'], tuple(case['f_range']), case['return_samples'], case['kwargs'], case['axis']
    kind = case['kw_kind']
    out = [[None] * n1 for _ in range(n0)]
    if axis == (0, 1):
        for i in range(n0):
            for j in range(n1):
                o = kw[i][j] if kind == '2d' else kw
                out[i][j] = ref_signal(sigs[i, j], fs, fr, o, rs)
    elif axis == 0:
        for i in range(n0):
            o = kw[i] if kind in ('1d', '2d') else kw
            r = ref_slice(sigs[i], fs, fr, o, rs)
            for j in range(n1):
                out[i][j] = r[j] if len(r) == n1 else None          # a reference of the wrong length decides nothing (shape checked below)
    else:
        for j in range(n1):
            o = kw[j] if kind == '1d' else ([kw[i][j] for i in range(n0)] if kind == '2d' else kw)
            r = ref_slice(sigs[:, j], fs, fr, o, rs)
            for i in range(n0):
                out[i][j] = r[i] if len(r) == n0 else None
    return out


def run_one(sh, case, driver='generated'):
    from bycycle.group import compute_features_3d
    from bycycle import BycycleGroup
    sigs = np.asarray(case['sigs'])
    n0, n1 = sigs.shape[:2]
    fs, fr, rs, kw, axis = case['fs'], tuple(case['f_range']), case['return_samples'], case['kwargs'], case['axis']
    axis = tuple(axis) if isinstance(axis, (list, tuple)) else axis
    case['axis'] = axis
    kind = case['kw_kind']
    ambiguous = kind == '2d' and axis in (0, 1)
    vs = []
    try:
        exp = expected(case)
    except Exception as e:
        sh.note('reference_raised:' + type(e).__name__)
        sh.case_done(case, False)
        return
    # delays keyed by the content the workers receive
    delays = {}
    rng = np.random.default_rng(case.get('delay_seed', 0))
    if axis == (0, 1):
        units = [sigs[i, j] for i in range(n0) for j in range(n1)]
    elif axis == 0:
        units = [sigs[i] for i in range(n0)]
    else:
        units = [sigs[:, j] for j in range(n1)]
    for rank, u in enumerate(rng.permutation(len(units))):
        delays[poollog.sig_key(units[int(u)])] = 0.03 * rank
    res = None
    api = case.get('api', 'func')
    layout = case.get('layout', 'C')

    def as_layout(a):
        # same values, another memory layout (Fortran order / non-contiguous view)
        if layout == 'F':
            return np.asfortranarray(np.array(a, copy=True))
        if layout == 'T':
            return np.ascontiguousarray(np.moveaxis(np.array(a, copy=True), 0, 1)).swapaxes(0, 1)
        return np.array(a, copy=True)
    sh.note('layout=' + layout)
    import sys
    fake = os.path.join(os.path.dirname(os.path.dirname(os.path.abspath(__file__))), 'fake_tqdm')
    use_fake = bool(case.get('fake_tqdm')) and case.get('progress') is not None
    for m in [m for m in sys.modules if m == 'tqdm' or m.startswith('tqdm.')]:
        del sys.modules[m]
    if use_fake:
        sys.path.insert(0, fake)
    opts = copy.deepcopy(kw)
    for dst, src in (case.get('alias') or []):
        put(opts, dst, get(opts, src))          # the same dict object at both positions (equal values by construction)
        sh.note('option_list_with_one_object_at_several_positions')
    if api == 'func' and case.get('reuse_options'):
        # the caller keeps its option objects: an earlier (unobserved) call with the SAME objects precedes the observed one
        try:
            with quiet():
                compute_features_3d(as_layout(sigs), fs, fr, compute_features_kwargs=opts, axis=axis, return_samples=rs, n_jobs=1)
            sh.note('second_call_with_the_same_option_objects')
        except Exception:
            sh.note('first_call_raised')
    with poollog.Session(os.environ.get('BCVERIF_WORK', '/tmp'), delays) as ses:
        try:
            with quiet():
                if api == 'func':
                    res = compute_features_3d(as_layout(sigs), fs, fr, compute_features_kwargs=opts,
                                              axis=axis, return_samples=rs, n_jobs=case['n_jobs'], progress=case.get('progress'))
                else:
                    o = copy.deepcopy(kw) or {}
                    if case.get('set_attrs'):
                        # the options reach the object through its public attributes, after construction
                        bg = BycycleGroup()
                        bg.center_extrema = o.get('center_extrema', 'peak')
                        bg.burst_method = o.get('burst_method', 'cycles')
                        bg.burst_kwargs = o.get('burst_kwargs') or {}
                        if o.get('threshold_kwargs') is not None:
                            bg.thresholds = o['threshold_kwargs']
                        elif bg.burst_method == 'amp':
                            bg.thresholds = {'burst_fraction_threshold': 1, 'min_n_cycles': 3}
                        if o.get('find_extrema_kwargs') is not None:
                            bg.find_extrema_kwargs = o['find_extrema_kwargs']
                        bg.return_samples = rs
                        sh.note('options_set_as_attributes')
                    else:
                        bg = BycycleGroup(center_extrema=o.get('center_extrema', 'peak'), burst_method=o.get('burst_method', 'cycles'),
                                          burst_kwargs=o.get('burst_kwargs'), thresholds=o.get('threshold_kwargs'),
                                          find_extrema_kwargs=o.get('find_extrema_kwargs'), return_samples=rs)
                    if case.get('refit_from') is not None:
                        # the same group object was fitted before on an array of another shape (history on the object)
                        try:
                            prev = np.asarray(case['refit_from'])
                            bg.fit(np.array(prev, copy=True), fs, fr, axis=axis if prev.ndim == 3 else 0, n_jobs=1)
                            sh.note('group_object_refitted:%s->%s' % (list(prev.shape[:-1]), [n0, n1]))
                        except Exception:
                            sh.note('group_object_first_fit_raised')
                    arr = as_layout(sigs)
                    if case.get('buffer_history'):
                        # the same array OBJECT was fitted before while it held other samples (a re-used acquisition buffer)
                        saved = dict(poollog.STATE)
                        poollog.STATE['log'], poollog.STATE['delays'] = None, {}
                        try:
                            arr[...] = sigs[::-1, ::-1]
                            bg.fit(arr, fs, fr, axis=axis, n_jobs=1)
                            sh.note('group_object_fitted_before_on_the_same_array_object')
                        except Exception:
                            sh.note('group_object_first_fit_raised')
                        finally:
                            poollog.STATE.update(saved)
                            arr[...] = sigs
                    bg.fit(arr, fs, fr, axis=axis, n_jobs=case['n_jobs'], progress=case.get('progress'))
                    res = bg.df_features
                    if len(bg.models) != n0 or any(len(r) != n1 for r in bg.models):
                        vs.append({'mechanism': 'models-shape', 'message': 'models has shape %s for an array (%d, %d)'
                                                                          % ([len(r) if isinstance(r, list) else 1 for r in bg.models], n0, n1)})
                        raise StopIteration
                    for i in range(n0):
                        for j in range(n1):
                            m = bg.models[i][j]
                            if m.df_features is not res[i][j] and poollog.tables_equal(m.df_features, res[i][j]):
                                vs.append({'mechanism': 'models-do-not-mirror-df_features', 'message': 'models[%d][%d]' % (i, j)})
                            if not np.array_equal(m.sig, sigs[i, j]):
                                vs.append({'mechanism': 'models-do-not-mirror-sigs', 'message': 'models[%d][%d].sig' % (i, j)})
        except StopIteration:
            pass
        except ValueError as e:
            if ambiguous and 'compute_features_kwargs' in str(e):
                sh.note('ambiguous_cell_rejected')
            else:
                vs.append({'mechanism': attach.exc_mechanism(e), 'message': 'group call raised %r' % (e,)})
        except Exception as e:
            vs.append({'mechanism': attach.exc_mechanism(e), 'message': 'group call raised %r' % (e,)})
        events = ses.events()
    if use_fake:
        sys.path.remove(fake)
    if res is not None:
        if ambiguous:
            sh.note('ambiguous_cell_accepted')
        ok_shape = len(res) == n0 and all(len(r) == n1 for r in res)
        if not ok_shape:
            vs.append({'mechanism': 'result-shape', 'message': 'nested list %s for array (%d, %d)'
                                                               % ([len(r) for r in res], n0, n1)})
        else:
            flat_exp = [(i, j, exp[i][j]) for i in range(n0) for j in range(n1) if exp[i][j] is not None]
            for i in range(n0):
                for j in range(n1):
                    if exp[i][j] is None:
                        sh.note('reference_slice_of_the_wrong_length')
                        continue
                    if len(exp[i][j]) == 0:
                        sh.note('entries_for_epochs_without_cycles')
                    d = poollog.tables_equal(res[i][j], exp[i][j])
                    if d is not None:
                        found = [(a, b) for a, b, t in flat_exp if poollog.tables_equal(res[i][j], t) is None]
                        vs.append({'mechanism': ('option-list-mispaired' if kind in ('1d', '2d') and not found else
                                                 'position-holds-other-signal' if found else 'position-differs'),
                                   'message': 'axis=%s shape (%d,%d) options %s: entry [%d][%d]: %s%s'
                                              % (axis, n0, n1, kind, i, j, d,
                                                 '; it equals the analysis belonging at %s' % found[:3] if found else '')})
                        break
                else:
                    continue
                break
        wev = [e for e in events if e.get('worker')]
        attach.count('eval:pool_worker_events', len(wev))
        fname = 'compute_features' if axis == (0, 1) else 'compute_features_2d'
        cnt = {}
        for e in wev:
            if e['f'] == fname:
                cnt[e['key']] = cnt.get(e['key'], 0) + 1
        for u in units:
            k = poollog.sig_key(u)
            if cnt.get(k, 0) != 1:
                vs.append({'mechanism': 'slice-analysed-%d-times' % cnt.get(k, 0),
                           'message': 'a slice was analysed %d times by the workers (axis=%s)' % (cnt.get(k, 0), axis)})
                break
        order = poollog.completion_order(events, [poollog.sig_key(u) for u in units], fname)
        if order != sorted(order):
            sh.note('runs_completing_out_of_submission_order')
    for v in vs:
        sh.violate(case, v, driver)
    sh.note('cell:shape=%dx%d' % (n0, n1))
    sh.note('cell:axis=%s:kwargs=%s' % (axis, kind))
    sh.note('n_jobs=%s' % case['n_jobs'])
    sh.note('progress=%s' % case.get('progress'))
    sh.note('api=' + api)
    nt = res is not None and (n0 != n1 or (n0 > 1 and n1 > 1))
    sample = {k: case.get(k) for k in ('fs', 'f_range', 'axis', 'kw_kind', 'n_jobs', 'return_samples', 'progress')}
    sample['sigs'] = 'array%s' % (list(sigs.shape),)
    sh.case_done(case, nt, sample=sample)


def opts_for(rng, lo, method=None, center=None):
    o = gen_row_opts(rng, lo)
    o.pop('return_samples', None)
    if center is not None:
        o['center_extrema'] = center
    return o


def epoch_opts(rng, lo):
    """Options usable for flattened-epoch slices (same method across a per-epoch list)."""
    o = {'center_extrema': str(rng.choice(['peak', 'trough'])), 'threshold_kwargs': gen.gen_thresholds_cycles(rng, full=True)}
    return o


def get(kw, idx):
    for i in idx:
        kw = kw[i]
    return kw


def put(kw, idx, val):
    for i in idx[:-1]:
        kw = kw[i]
    kw[idx[-1]] = val


def make_case(rng, shape=None, axis=None, kind=None, noalias=False, sparse=False, short_rows=False):
    fs, lo, hi = gen.gen_config(rng, small=True)
    if shape is None:
        shape = (int(rng.integers(1, 5)), int(rng.integers(1, 5)))
    n0, n1 = shape
    nsamp = int(fs * rng.uniform(1.2, 2.2))
    if short_rows:
        nsamp = max(6, int(rng.uniform(0.45, 0.8) * fs / hi))          # shorter than one cycle: some epochs of a flattened slice hold no cycle
    rows = gen_rows(rng, n0 * n1, nsamp, fs, lo, hi)
    sigs = rows.reshape(n0, n1, nsamp)
    if rng.random() < 0.2:
        sigs = sigs.astype(np.float32)          # single-precision recordings
    if axis is None:
        axis = [0, 1, (0, 1)][int(rng.integers(0, 3))]
    if kind is None:
        kinds = ['dict', 'none', '2d'] if axis == (0, 1) else ['dict', 'none', '1d', '1d', '2d']
        kind = kinds[int(rng.integers(0, len(kinds)))]
    api = 'func'
    if kind == 'dict':
        kw = opts_for(rng, lo) if axis == (0, 1) else epoch_opts(rng, lo)
        if rng.random() < 0.4:
            api = 'obj'
    elif kind == 'none':
        kw = None
    elif kind == '1d':
        kw = [epoch_opts(rng, lo) for _ in range(n0 if axis == 0 else n1)]
        if sparse or rng.random() < 0.5:
            # entries that leave settings out (the documented defaults apply to THAT slice, whatever its neighbours say)
            if sparse and len(kw) >= 2:
                kw[0]['center_extrema'] = 'trough'
                kw[0]['threshold_kwargs'] = dict(kw[0]['threshold_kwargs'], amp_fraction_threshold=0.6, min_n_cycles=2)
            for e in kw[1:] if sparse else kw:
                for k in list(e):
                    if sparse or rng.random() < 0.45:
                        del e[k]
    else:
        if axis == (0, 1):
            kw = [[opts_for(rng, lo) for _ in range(n1)] for _ in range(n0)]
        else:
            c = str(rng.choice(['peak', 'trough']))
            kw = [[dict(epoch_opts(rng, lo), center_extrema=c) for _ in range(n1)] for _ in range(n0)]
    alias = None
    if kind in ('1d', '2d') and rng.random() < 0.4 and not noalias:
        # the caller built its list from a few dict OBJECTS used at several positions (first and last the same object, ...)
        flat = [(i,) for i in range(len(kw))] if kind == '1d' else [(i, j) for i in range(len(kw)) for j in range(len(kw[0]))]
        if len(flat) >= 2:
            alias = [[list(flat[-1]), list(flat[0])]]
            if len(flat) >= 4 and rng.random() < 0.5:
                alias.append([list(flat[-2]), list(flat[1])])
            for dst, src in alias:
                put(kw, dst, copy.deepcopy(get(kw, src)))
    refit_from = None
    if api == 'obj' and rng.random() < 0.6:
        m1 = int(rng.choice([m for m in (1, 2, 3, 4) if m != n1]))
        prev = gen_rows(rng, n0 * m1, nsamp, fs, lo, hi).reshape(n0, m1, nsamp)
        refit_from = prev if rng.random() < 0.8 else prev[:, 0, :]
    return dict(sigs=sigs, fs=fs, f_range=(lo, hi), kwargs=kw, kw_kind=kind, axis=axis, refit_from=refit_from, alias=alias,
                layout=['C', 'C', 'F', 'T'][int(rng.integers(0, 4))], reuse_options=bool(rng.random() < 0.35), buffer_history=bool(rng.random() < 0.5), set_attrs=bool(rng.random() < 0.5),
                return_samples=bool(rng.random() < 0.7), n_jobs=int(rng.choice([1, 2, -1])), api=api,
                delay_seed=int(rng.integers(0, 1 << 30)),
                progress=[None, None, 'tqdm', 'tqdm.notebook'][int(rng.integers(0, 4))], fake_tqdm=bool(rng.random() < 0.5))


def run(sh):
    rng = gen.rng_for(sh.seed, PROP, sh.shard)
    # systematic part: every (shape, axis) cell is visited across the shards
    cells = [((a, b), ax) for a in (1, 2, 3, 4) for b in (1, 2, 3, 4) for ax in (0, 1, (0, 1))]
    mine = [c for i, c in enumerate(cells) if i % sh.nshards == sh.shard]
    if sh.tier == 'quick':
        mine = mine[(sh.seed % 3)::3] if len(mine) > 3 else mine
    for ci, (shape, ax) in enumerate(mine):
        # option structures are assigned round-robin so that every (axis, structure) class is visited in every run
        kinds = ['dict', '2d', 'none'] if ax == (0, 1) else ['1d', 'dict', '2d', 'none']
        guarded(sh, run_one, sh, make_case(rng, shape=shape, axis=ax, kind=kinds[(ci + sh.shard + sh.seed) % len(kinds)]), 'grid')
    # every (axis, option structure) class exactly once per run, whatever the seed (spread over the shards)
    classes = [(ax, k) for ax in (0, 1) for k in ('dict', 'none', '1d', '2d')] + [((0, 1), k) for k in ('dict', 'none', '2d')]
    for i, (ax, k) in enumerate(classes):
        if i % sh.nshards == sh.shard:
            shape = [(2, 3), (3, 2), (2, 2), (1, 3), (3, 1)][(i + sh.seed) % 5]
            guarded(sh, run_one, sh, make_case(rng, shape=shape, axis=ax, kind=k), 'class_cover')
    # in every run: a 2-D option grid of pairwise different entries on arrays with unequal extents > 1 (row- vs column-major)
    for i, shape in enumerate([(2, 3), (3, 2)]):
        if (len(classes) + i) % sh.nshards == sh.shard:
            c = make_case(rng, shape=shape, axis=(0, 1), kind='2d', noalias=True)
            sh.note('distinct_2d_option_grid_on_unequal_extents')
            guarded(sh, run_one, sh, c, 'class_cover')
    # in every run: per-slice lists whose later entries leave settings out after a first entry with non-default settings
    for i, (shape, ax) in enumerate([((3, 2), 0), ((2, 3), 1)]):
        if (len(classes) + 2 + i) % sh.nshards == sh.shard:
            c = make_case(rng, shape=shape, axis=ax, kind='1d', noalias=True, sparse=True)
            sh.note('per_slice_list_with_entries_that_omit_settings')
            guarded(sh, run_one, sh, c, 'class_cover')
    # in every run: slices whose rows are shorter than one cycle (epochs without cycles keep their place in the nested list)
    for i, (shape, ax, k) in enumerate([((2, 11), 0, 'dict'), ((12, 2), 1, 'none'), ((3, 10), 0, '1d'), ((10, 3), 1, 'dict')]):
        if (len(classes) + 4 + i) % sh.nshards == sh.shard:
            c = make_case(rng, shape=shape, axis=ax, kind=k, noalias=True, short_rows=True)
            c['refit_from'] = None
            if i == 3:
                c['api'] = 'obj'
            sh.note('slices_with_rows_shorter_than_one_cycle')
            guarded(sh, run_one, sh, c, 'class_cover')
    # every shard: a group object that receives its options through its attributes
    c = make_case(rng, shape=[(2, 2), (2, 3), (3, 2), (1, 3)][sh.shard % 4], axis=[0, 1, (0, 1)][sh.shard % 3], kind='dict')
    c['api'], c['set_attrs'] = 'obj', True
    guarded(sh, run_one, sh, c, 'attributes')
    K = 2 if sh.tier == 'quick' else 150
    for it in range(K):
        guarded(sh, run_one, sh, make_case(rng))


def replay(sh, driver, case):
    run_one(sh, case, driver)
