"""C13 - epoched (axis=None) analysis partitions the flattened analysis."""
import copy

import numpy as np
import pandas as pd

from .. import attach, gen, monitors, pipeline, poollog, refs
from ..runner import quiet

PROP = 'C13'
FEATS = ('amp_fraction', 'amp_consistency', 'period_consistency', 'monotonicity')


def setup(sh):
    pass


def check_partition(df_flat, dfs, sig_len, E, where):
    """Offline partition checker: concatenating the epoch tables with indices shifted back reproduces the
    flattened table row for row; a row sits in the epoch that contains its closing side extremum."""
    center = monitors.centre_of(df_flat)
    side = 'trough' if center == 'peak' else 'peak'
    closing = df_flat['sample_next_' + side].to_numpy()
    n_epochs = int(np.ceil(sig_len / E))
    if len(dfs) != n_epochs:
        return 'epoch-count', '%s: %d tables for %d epochs' % (where, len(dfs), n_epochs)
    sample_cols = [c for c in df_flat.columns if str(c).startswith('sample_')]
    feat_cols = [c for c in df_flat.columns if c not in sample_cols and c != 'is_burst']
    pos = 0
    info = {'boundary_coincidences': 0, 'empty_epochs': 0, 'straddling': 0}
    nrows = sum(len(d) for d in dfs)
    if nrows != len(df_flat):
        # which cycle is missing / duplicated
        seen = []
        for k, d in enumerate(dfs):
            if len(d):
                seen.extend((d['sample_next_' + side].to_numpy() + k * E).tolist())
        missing = sorted(set(closing.tolist()) - set(seen))
        dup = sorted({v for v in seen if seen.count(v) > 1})
        return ('cycle-lost' if missing else 'cycle-duplicated' if dup else 'row-count'), \
            '%s: %d cycles in the flattened analysis, %d in the epoch tables; missing closing samples %s, duplicated %s' \
            % (where, len(df_flat), nrows, missing[:4], dup[:4])
    for k, d in enumerate(dfs):
        first = k * E
        if len(d) == 0:
            info['empty_epochs'] += 1
            continue
        if list(d.columns) != list(df_flat.columns):
            return 'columns', '%s epoch %d: columns differ' % (where, k)
        if list(d.index) != list(range(len(d))):
            info['index_not_reset'] = info.get('index_not_reset', 0) + 1     # not part of the statement: counted only
        for i in range(len(d)):
            row = df_flat.iloc[pos]
            c = int(closing[pos])
            if c == first + E or c == first:
                info['boundary_coincidences'] += 1
                ok_epoch = (c == first + E) or (c == first)      # either adjacent epoch accepted
            else:
                ok_epoch = first < c < first + E
            if int(d['sample_next_' + side].iloc[i]) + first != c:
                return 'order-or-shift', '%s epoch %d row %d: closing %d + %d != flattened %d (row %d)' \
                    % (where, k, i, int(d['sample_next_' + side].iloc[i]), first, c, pos)
            if not ok_epoch:
                return 'wrong-epoch', '%s: cycle closing at %d placed in epoch %d = (%d, %d]' % (where, c, k, first, first + E)
            if int(row['sample_last_' + side]) < first:
                info['straddling'] += 1
            for col in sample_cols:
                if int(d[col].iloc[i]) + first != int(row[col]):
                    return 'shift:' + col, '%s epoch %d row %d %s: %d + %d != %d' % (where, k, i, col, int(d[col].iloc[i]), first, int(row[col]))
            for col in feat_cols:
                x, y = float(d[col].iloc[i]), float(row[col])
                if not (x == y or (x != x and y != y)):
                    return 'feature-changed:' + col, '%s epoch %d row %d %s: %r != flattened %r' % (where, k, i, col, x, y)
            pos += 1
    return None, info


def labels_of(dfs):
    out = []
    for d in dfs:
        out.extend([bool(v) for v in d['is_burst'].to_numpy().tolist()] if len(d) else [])
    return out


def run_one(sh, case, driver='generated'):
    from bycycle.features import compute_features
    from bycycle.group import compute_features_2d
    from bycycle.utils.dataframes import epoch_df
    sigs = np.asarray(case['sigs'])
    layout = case.get('layout', 'C')
    fs, f_range = case['fs'], tuple(case['f_range'])
    kw = case['kwargs']
    first = (kw[0] if isinstance(kw, list) else kw) or {}

    def as_layout(a):
        # same values, another memory layout: Fortran order or a transposed view of a C array
        if layout == 'F':
            return np.asfortranarray(np.array(a, copy=True))
        if layout == 'T':
            return np.ascontiguousarray(np.array(a, copy=True).T).T
        return np.array(a, copy=True)
    E = sigs.shape[1]
    flat_sig = sigs.flatten()
    vs = []
    nt = False
    try:
        with quiet():
            o = copy.deepcopy(first)
            o.pop('return_samples', None)
            df_flat = compute_features(np.array(flat_sig, copy=True), fs, f_range, return_samples=True, **o)
    except Exception as e:
        sh.note('flattened_reference_raised:' + type(e).__name__)
        sh.case_done(case, False)
        return
    res = None
    try:
        with quiet():
            if case.get('api') == 'obj' and isinstance(kw, dict):
                from bycycle import BycycleGroup
                bg = BycycleGroup(center_extrema=kw.get('center_extrema', 'peak'), burst_method=kw.get('burst_method', 'cycles'),
                                  burst_kwargs=copy.deepcopy(kw.get('burst_kwargs')), thresholds=copy.deepcopy(kw.get('threshold_kwargs')),
                                  find_extrema_kwargs=copy.deepcopy(kw.get('find_extrema_kwargs')))
                bg.fit(as_layout(sigs), fs, f_range, axis=None, n_jobs=1)
                res = bg.df_features
                sh.note('via_BycycleGroup')
            else:
                opts = copy.deepcopy(kw)
                for dst, src in (case.get('alias') or []):
                    opts[dst] = opts[src]               # one dict object at both positions (equal values by construction)
                    sh.note('option_list_with_one_object_at_several_positions')
                res = compute_features_2d(as_layout(sigs), fs, f_range, compute_features_kwargs=opts,
                                          axis=None, return_samples=True, n_jobs=1)
                if case.get('reuse_options'):
                    # the caller keeps its option list / dict and analyses again with the SAME objects: the second result is
                    # the one that is checked below
                    res = compute_features_2d(as_layout(sigs), fs, f_range, compute_features_kwargs=opts,
                                              axis=None, return_samples=True, n_jobs=1)
                    sh.note('second_call_with_the_same_option_objects:%s' % ('list' if isinstance(kw, list) else 'dict'))
    except Exception as e:
        vs.append({'mechanism': attach.exc_mechanism(e),
                   'message': 'compute_features_2d(axis=None) raised %r; flattened analysis has %d cycles, %d epochs of %d samples'
                              % (e, len(df_flat), len(sigs), E)})
    # epoch_df itself, on the flattened table
    try:
        with quiet():
            dfs_e = epoch_df(df_flat.copy(), len(flat_sig), E)
        attach.count('eval:epoch_df')
        r = check_partition(df_flat, dfs_e, len(flat_sig), E, 'epoch_df')
        if r[0] is not None:
            vs.append({'mechanism': 'partition-' + r[0], 'message': r[1]})
        elif labels_of(dfs_e) != [bool(v) for v in df_flat['is_burst']]:
            vs.append({'mechanism': 'partition-labels-changed', 'message': 'epoch_df changed is_burst'})
    except Exception as e:
        vs.append({'mechanism': attach.exc_mechanism(e), 'message': 'epoch_df raised %r' % (e,)})
    if res is not None:
        attach.count('eval:compute_features_2d_axis_none')
        r = check_partition(df_flat, res, len(flat_sig), E, 'compute_features_2d(axis=None)')
        if r[0] is not None:
            vs.append({'mechanism': 'partition-' + r[0], 'message': r[1]})
        else:
            info = r[1]
            sh.note('empty_epochs', info['empty_epochs'])
            sh.note('boundary_coincidences', info['boundary_coincidences'])
            sh.note('straddling_cycles', info['straddling'])
            nonempty = sum(1 for d in res if len(d))
            nt = nonempty >= 2 and info['straddling'] >= 1
            if not isinstance(kw, list) or len(kw) == 1:
                sh.note('single_option_set')
                got, exp = labels_of(res), [bool(v) for v in df_flat['is_burst']]
                if got != exp:
                    i = refs.first_diff(got, exp)
                    # locate the epoch of cycle i
                    cum, ep = 0, None
                    for k, d in enumerate(res):
                        if i < cum + len(d):
                            ep = k
                            break
                        cum += len(d)
                    vs.append({'mechanism': 'single-option-set-labels-differ-from-flattened',
                               'message': 'cycle %d (epoch %s, row %d): is_burst %s, flattened analysis %s'
                                          % (i, ep, i - cum, got[i], exp[i])})
            else:
                sh.note('per_epoch_list')
                if any('threshold_kwargs' not in (o or {}) for o in kw) and any('threshold_kwargs' in (o or {}) for o in kw):
                    sh.note('per_epoch_list_with_defaulted_epochs')
                for k, d in enumerate(res):
                    ok = dict(kw[k] or {})
                    thr = dict(ok.get('threshold_kwargs') or {})
                    method = ok.get('burst_method', 'cycles')
                    got = [bool(v) for v in d['is_burst'].to_numpy().tolist()] if len(d) else []
                    if method == 'cycles':
                        cols = [d[c].to_numpy().astype(float).tolist() for c in FEATS]
                        exp, _ = refs.ref_labels_cycles(cols[0], cols[1], cols[2], cols[3], thr)
                    else:
                        exp, _ = refs.ref_labels_amp(d['burst_fraction'].to_numpy().astype(float).tolist(),
                                                     thr.get('burst_fraction_threshold', 1), thr.get('min_n_cycles', 3))
                    if got != exp:
                        i = refs.first_diff(got, exp)
                        vs.append({'mechanism': 'per-epoch-labels', 'message': 'epoch %d row %s: is_burst %s, rule with that epoch\'s '
                                   'thresholds %s gives %s' % (k, i, got[i] if i < len(got) else None, thr,
                                                               exp[i] if i < len(exp) else None)})
                        break
    for v in vs:
        sh.violate(case, v, driver)
    sh.note('layout=' + layout)
    sh.note('method=' + str(first.get('burst_method', 'cycles')))
    sh.note('center=' + str(first.get('center_extrema', 'peak')))
    sample = {'sigs': 'array%s' % (list(sigs.shape),), 'fs': fs, 'f_range': list(f_range), 'aligned': case.get('aligned'),
              'kwargs': kw if not isinstance(kw, list) else kw[:2] + ['...']}
    sh.case_done(case, nt, sample=sample)


def run_epoch_df_direct(sh, case, driver='epoch_df_direct'):
    """epoch_df on a flattened table with an epoch length that need not divide the signal length."""
    from bycycle.features import compute_features
    from bycycle.utils.dataframes import epoch_df
    sig = np.asarray(case['sig'])
    E = int(case['epoch_len'])
    try:
        with quiet():
            df = compute_features(np.array(sig, copy=True), case['fs'], tuple(case['f_range']), center_extrema=case['center'],
                                  threshold_kwargs={'min_n_cycles': 2})
    except Exception:
        sh.case_done(case, False)
        return
    vs = []
    try:
        with quiet():
            dfs = epoch_df(df.copy(), len(sig), E)
        attach.count('eval:epoch_df')
        r = check_partition(df, dfs, len(sig), E, 'epoch_df(direct)')
        if r[0] is not None:
            vs.append({'mechanism': 'partition-' + r[0], 'message': r[1] + ' (signal length %d, epoch length %d)' % (len(sig), E)})
        else:
            sh.note('epoch_df_direct:%s' % ('divides' if len(sig) % E == 0 else 'partial_last_epoch'))
            sh.note('empty_epochs', r[1]['empty_epochs'])
            sh.note('boundary_coincidences', r[1]['boundary_coincidences'])
    except Exception as e:
        vs.append({'mechanism': attach.exc_mechanism(e), 'message': 'epoch_df raised %r (signal length %d, epoch length %d)' % (e, len(sig), E)})
    for v in vs:
        sh.violate(case, v, driver)
    sh.case_done(case, len(df) >= 4, sample={'n': len(sig), 'epoch_len': E, 'fs': case['fs'], 'center': case['center']})


def make_case(rng):
    fs, lo, hi = gen.gen_config(rng, small=True)
    f0 = rng.uniform(lo + .2 * (hi - lo), hi - .2 * (hi - lo))
    period = fs / f0
    aligned = rng.random() < 0.35
    n_epochs = int(rng.integers(2, 9))
    if aligned:
        # epoch length an exact multiple of the period: troughs/peaks fall exactly on epoch boundaries
        per = int(round(period))
        E = per * int(rng.integers(1, 6))
        n = E * n_epochs
        t = np.arange(n)
        phase0 = rng.choice([0.0, 0.5])            # extremum exactly on multiples of the period
        sig = np.cos(2 * np.pi * (t / per) + np.pi * 2 * phase0)
        if rng.random() < 0.5:
            sig = sig + rng.uniform(0, 0.05) * gen.colored(rng, n)
        fam = 'aligned'
    else:
        E = max(8, int(period * rng.choice([0.5, 0.8, 1.3, 2.5, 4, 7, 10])))
        n = E * n_epochs
        sig, fam = gen.gen_signal(rng, fs, lo, hi, n / fs)
        sig = sig[:n]
        if len(sig) < n:
            n_epochs = len(sig) // E
            sig = sig[:E * n_epochs]
    sigs = np.array(sig).reshape(n_epochs, E)
    center = str(rng.choice(['peak', 'trough']))
    method = str(rng.choice(['cycles', 'cycles', 'amp']))

    fek = None
    if rng.random() < 0.35:
        # extrema options of the flattened analysis: a boundary, no padding, another filter length
        fek = {}
        if rng.random() < 0.6:
            fek['boundary'] = int(rng.choice([5, int(period), int(3 * period)]))
        if rng.random() < 0.4:
            fek['filter_kwargs'] = {'n_cycles': int(rng.choice([2, 5, 7]))}
        if rng.random() < 0.3:
            fek['pad'] = False
        fek = fek or {'boundary': int(2 * period)}

    def opts():
        o = {'center_extrema': center, 'burst_method': method}
        if fek is not None:
            o['find_extrema_kwargs'] = copy.deepcopy(fek)
        if method == 'cycles':
            o['threshold_kwargs'] = gen.gen_thresholds_cycles(rng, full=rng.random() < 0.6)
        else:
            thr, bk, _ = gen.gen_amp_options(rng, lo)
            o['threshold_kwargs'] = thr
            if bk:
                bk.pop('min_burst_duration', None)
                o['burst_kwargs'] = bk
        return o
    r = rng.random()
    if r < 0.5:
        kw = opts()
    elif r < 0.55:
        kw = None
    else:
        base = opts()
        kw = []
        for k in range(n_epochs):
            o = copy.deepcopy(base)
            if method == 'cycles':
                o['threshold_kwargs'] = gen.gen_thresholds_cycles(rng, full=rng.random() < 0.6)
            else:
                o['threshold_kwargs'] = {'burst_fraction_threshold': float(rng.choice([0, .3, .5, 1.]))}
                if rng.random() < 0.5:
                    o['threshold_kwargs']['min_n_cycles'] = int(rng.choice([1, 2, 3]))
            if rng.random() < 0.25:
                del o['threshold_kwargs']          # this epoch uses the documented defaults
            kw.append(o)
    alias = None
    if isinstance(kw, list) and len(kw) >= 3 and rng.random() < 0.35:
        alias = [[len(kw) - 1, 0]]
        kw[-1] = copy.deepcopy(kw[0])
    return dict(sigs=sigs, fs=fs, f_range=(lo, hi), kwargs=kw, aligned=bool(aligned), family=fam, alias=alias,
                layout=['C', 'C', 'F', 'T'][int(rng.integers(0, 4))], reuse_options=bool(rng.random() < 0.4),
                api='obj' if (isinstance(kw, dict) and rng.random() < 0.25) else 'func')


def run(sh):
    rng = gen.rng_for(sh.seed, PROP, sh.shard)
    K = 40 if sh.tier == 'quick' else 2000
    for it in range(K):
        c = make_case(rng)
        if c['sigs'].shape[0] >= 2:
            run_one(sh, c)
        if it % 3 == 0:
            fs, lo, hi = gen.gen_config(rng, small=True)
            sig, fam = gen.gen_signal(rng, fs, lo, hi, rng.uniform(2.0, 5.0))
            per = fs / (0.5 * (lo + hi))
            E = max(5, int(per * rng.choice([0.6, 1.0, 1.7, 3.3, 6.1])))
            if rng.random() < 0.3:
                with quiet():
                    b = gen.boundary_on_extremum(rng, sig, fs, (lo, hi))          # epoch boundary exactly on an extremum
                if b is not None and b >= 5:
                    E = b
            run_epoch_df_direct(sh, {'sig': sig, 'fs': fs, 'f_range': (lo, hi), 'center': str(rng.choice(['peak', 'trough'])), 'epoch_len': E})


def replay(sh, driver, case):
    if driver == 'epoch_df_direct':
        run_epoch_df_direct(sh, case, driver)
    else:
        run_one(sh, case, driver)
