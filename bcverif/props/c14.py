"""C14 - Bycycle objects reproduce the functional API and hold no stale state (history monitor)."""
import copy
import itertools

import numpy as np

from .. import attach, gen, poollog
from ..runner import quiet, guarded

PROP = 'C14'
SHORT = {'amp_fraction': 'amp_fraction_threshold', 'amp_consistency': 'amp_consistency_threshold',
         'period_consistency': 'period_consistency_threshold', 'monotonicity': 'monotonicity_threshold',
         'burst_fraction': 'burst_fraction_threshold'}


SPY = {}


def setup(sh):
    # recorder on the functional edge recomputation as the objects call it: which thresholds did they hand over?
    def make(orig):
        def spy(df_features, threshold_kwargs, *a, **k):
            SPY['thresholds'] = copy.deepcopy(threshold_kwargs)
            attach.count('rec:recompute_edges_called_by_object')
            return orig(df_features, threshold_kwargs, *a, **k)
        return spy
    attach.attach('bycycle.burst.utils', 'recompute_edges', make, only_modules={'bycycle.objs.fit'})


def expand(thr):
    """Threshold shorthand names expanded (documented: 'monotonicity' means 'monotonicity_threshold')."""
    if not isinstance(thr, dict):
        return thr
    return {(k if k.endswith('_threshold') or k == 'min_n_cycles' else k + '_threshold'): v for k, v in thr.items()}


def default_thresholds(method):
    if method == 'cycles':
        return {'amp_fraction_threshold': 0., 'amp_consistency_threshold': .5, 'period_consistency_threshold': .5,
                'monotonicity_threshold': .8, 'min_n_cycles': 3}
    return {'burst_fraction_threshold': 1, 'min_n_cycles': 3}


class Shadow:
    """The user's view of the settings: what was passed to the constructor or assigned later."""

    def __init__(self, settings):
        s = copy.deepcopy(settings)
        self.center = s.get('center_extrema', 'peak')
        self.method = s.get('burst_method', 'cycles')
        self.burst_kwargs = s.get('burst_kwargs') if s.get('burst_kwargs') is not None else {}
        thr = s.get('thresholds')
        self.thresholds = expand(thr) if thr is not None else default_thresholds(self.method)
        self.fek = s.get('find_extrema_kwargs') if s.get('find_extrema_kwargs') is not None else {'filter_kwargs': {'n_cycles': 3}}
        self.return_samples = s.get('return_samples', True)

    def ctor_kwargs(self):
        return dict(center_extrema=self.center, burst_method=self.method, burst_kwargs=copy.deepcopy(self.burst_kwargs),
                    thresholds=copy.deepcopy(self.thresholds), find_extrema_kwargs=copy.deepcopy(self.fek),
                    return_samples=self.return_samples)

    def functional(self, sig, fs, f_range):
        from bycycle.features import compute_features
        return compute_features(np.array(sig, copy=True), fs, f_range, center_extrema=self.center, burst_method=self.method,
                                burst_kwargs=copy.deepcopy(self.burst_kwargs), threshold_kwargs=copy.deepcopy(self.thresholds),
                                find_extrema_kwargs=copy.deepcopy(self.fek), return_samples=self.return_samples)

    def reduced(self, r):
        r = 0 if r is None else r
        return {k: (v - r if k.endswith('threshold') else v) for k, v in self.thresholds.items()}


def outcome(fn):
    try:
        with quiet():
            return fn(), None
    except Exception as e:        # noqa: BLE001
        return None, e


def same_outcome(a, ea, b, eb):
    if (ea is None) != (eb is None):
        return 'one raised (%r) the other did not (%r)' % (ea, eb)
    if ea is not None:
        return None if type(ea) is type(eb) else 'different exceptions: %r vs %r' % (ea, eb)
    return poollog.tables_equal(a, b)


def check_attributes(obj, step, what):
    """getattr(obj, col) must be the column of the CURRENT table, for every column."""
    if obj.df_features is None:
        return None
    for col in obj.df_features.columns:
        got, e2 = outcome(lambda: getattr(obj, col))
        ref = obj.df_features[col].to_numpy()
        ok = e2 is None and (np.array_equal(np.asarray(got), ref) or
                             (np.asarray(got).dtype.kind == 'f' and np.array_equal(np.asarray(got), ref, equal_nan=True)))
        if not ok:
            return {'mechanism': 'attribute-access', 'message': 'step %d (%s): attribute %s is not the column of the current table (%r)'
                                                               % (step, what, col, e2)}
    attach.count('eval:attribute_access', len(obj.df_features.columns))
    return None


def run_history(sh, case, driver='history'):
    """Execute a history on one object while the model follows; compare after every fit / recompute / load."""
    from bycycle import Bycycle
    from bycycle.burst import recompute_edges
    # the user's arrays: the SAME objects are passed to every fit of the history (and may be edited in place)
    sigs = [np.array(s, dtype=float, copy=True) for s in case['sigs']]
    fs, f_range = case['fs'], tuple(case['f_range'])
    case.setdefault('f_range2', case['f_range'])
    settings = case['settings']
    ops = case['ops']
    vs = []
    obj, e = outcome(lambda: Bycycle(**copy.deepcopy(settings)))
    if e is not None:
        sh.note('constructor_raised:' + type(e).__name__)
        sh.case_done(case, False)
        return
    sh_ = Shadow(settings)
    fits = 0
    sep = False
    prev = None
    for step, op in enumerate(ops):
        kind = op[0]
        sh.note('op:' + kind)
        if prev is not None:
            sh.note('bigram:%s>%s' % (prev, kind))
        prev = kind
        if kind == 'fit':
            sig = sigs[op[1]]
            same_object = len(op) < 3 or op[2] != 'copy'
            if len(op) >= 4 and op[3] == 'other_band':
                f_range = tuple(case['f_range2'])
            else:
                f_range = tuple(case['f_range'])
            _, eo = outcome(lambda: obj.fit(sig if same_object else np.array(sig, copy=True), fs, f_range))
            sh.note('fit:same_array_object' if same_object else 'fit:copy')
            fresh = Bycycle(**sh_.ctor_kwargs())
            _, ef = outcome(lambda: fresh.fit(np.array(sig, copy=True), fs, f_range))
            dff, en = outcome(lambda: sh_.functional(sig, fs, f_range))
            attach.count('eval:history_fit_compared')
            tab = obj.df_features if eo is None else None
            d1 = same_outcome(tab, eo, fresh.df_features if ef is None else None, ef)
            d2 = same_outcome(tab, eo, dff, en)
            if d1 is not None:
                vs.append({'mechanism': 'fit-differs-from-fresh-object',
                           'message': 'step %d (%s): fit differs from a freshly constructed object with the current settings: %s; '
                                      'object thresholds=%s burst_kwargs=%s, user view thresholds=%s burst_kwargs=%s'
                                      % (step, op, d1, obj.thresholds, obj.burst_kwargs, sh_.thresholds, sh_.burst_kwargs)})
                break
            if d2 is not None:
                vs.append({'mechanism': 'fit-differs-from-functional-api',
                           'message': 'step %d (%s): fit differs from compute_features with the same settings: %s' % (step, op, d2)})
                break
            if eo is None:
                if fits >= 1 and sep:
                    case['_nt'] = True
                fits += 1
                sep = False
                # attribute access returns the table's columns
                v = check_attributes(obj, step, 'after fit')
                if v is not None:
                    vs.append(v)
                    break
        elif kind == 'recompute':
            r = op[1]
            if obj.df_features is None:
                continue
            before = obj.df_features.copy()
            SPY.pop('thresholds', None)
            _, eo = outcome(lambda: obj.recompute_edges(r))
            seen = SPY.get('thresholds')
            if seen is not None:
                # "every *_threshold lowered by r": compare what the object handed to the functional recomputation
                exp = sh_.reduced(r)
                badk = [k for k in set(exp) | set(seen) if k not in exp or k not in seen or
                        abs(float(exp[k]) - float(seen[k])) > 1e-9]
                attach.count('eval:thresholds_handed_over_compared')
                if badk:
                    vs.append({'mechanism': 'recompute-edges-thresholds-not-lowered-by-r',
                               'message': 'step %d recompute_edges(%r): the object recomputed with %s, thresholds lowered by r are %s (keys %s)'
                                          % (step, r, seen, exp, sorted(badk))})
                    break
            ref, er = outcome(lambda: recompute_edges(before.copy(), sh_.reduced(r)))
            attach.count('eval:history_recompute_compared')
            d = same_outcome(obj.df_features if eo is None else None, eo, ref, er)
            if d is not None:
                vs.append({'mechanism': 'recompute-edges-differs-from-functional',
                           'message': 'step %d recompute_edges(%r): %s (reduced thresholds %s)' % (step, r, d, sh_.reduced(r))})
                break
            v = check_attributes(obj, step, 'after recompute_edges')
            if v is not None:
                vs.append(v)
                break
            sep = True
        elif kind == 'load':
            src = sigs[op[1]]
            tab, e0 = outcome(lambda: sh_.functional(src, fs, f_range))
            if e0 is not None:
                continue
            obj.load(tab, src, fs, f_range)
            if obj.df_features is not tab or obj.sig is not src:
                vs.append({'mechanism': 'load-did-not-set', 'message': 'step %d load' % step})
                break
            v = check_attributes(obj, step, 'after load')
            if v is not None:
                vs.append(v)
                break
            sep = True
        elif kind == 'edit_sig':
            # in-place edit of the samples of an array the object may still reference
            k = op[1]
            if op[2] == 'negate':
                sigs[k] *= -1.0
            else:
                sigs[k][:] = np.roll(sigs[k], 37)
            sep = True
        elif kind == 'edit_thr':
            key, val = op[1], op[2]
            obj.thresholds[key] = val
            sh_.thresholds[key] = val
            sep = True
        elif kind == 'edit_bk':
            key, val = op[1], op[2]
            obj.burst_kwargs[key] = copy.deepcopy(val)
            sh_.burst_kwargs[key] = copy.deepcopy(val)
            sep = True
        elif kind == 'del_bk':
            obj.burst_kwargs.pop(op[1], None) if op[1] in sh_.burst_kwargs else None
            sh_.burst_kwargs.pop(op[1], None)
            sep = True
        elif kind == 'set':
            setattr(obj, op[1], op[2])
            if op[1] == 'center_extrema':
                sh_.center = op[2]
            elif op[1] == 'return_samples':
                sh_.return_samples = op[2]
            sep = True
    for v in vs:
        sh.violate({k: v2 for k, v2 in case.items() if k != '_nt'}, v, driver)
    nt = bool(case.pop('_nt', False))
    sample = {'settings': settings, 'ops': ops, 'n_sigs': len(sigs), 'fs': fs, 'f_range': list(f_range)}
    sh.case_done(case, nt, sample=sample)


def gen_settings(rng, lo, method=None):
    method = method or str(rng.choice(['cycles', 'amp']))
    s = {'burst_method': method, 'center_extrema': str(rng.choice(['peak', 'trough']))}
    if method == 'cycles':
        thr = gen.gen_thresholds_cycles(rng, full=True)
        if rng.random() < 0.4:      # shorthand names
            thr = {(k[:-10] if k.endswith('_threshold') and rng.random() < 0.7 else k): v for k, v in thr.items()}
    else:
        thr, bk, _ = gen.gen_amp_options(rng, lo)
        thr.setdefault('burst_fraction_threshold', 1.0)
        if bk is not None and rng.random() < 0.8:
            bk.pop('min_burst_duration', None)
            s['burst_kwargs'] = bk
        if rng.random() < 0.3:
            thr = {('burst_fraction' if k == 'burst_fraction_threshold' else k): v for k, v in thr.items()}
    if rng.random() < 0.85:
        s['thresholds'] = thr
    if rng.random() < 0.5:
        # every documented shape of the option dict: with / without 'filter_kwargs', boundary, pad, empty
        fek = gen.gen_find_extrema_kwargs(rng, 250., lo, allow_none=False)
        if 'boundary' in fek and fek['boundary'] > 12:
            fek['boundary'] = 12
        s['find_extrema_kwargs'] = fek
    if rng.random() < 0.2:
        s['return_samples'] = False
    return s


def gen_op(rng, method, nsigs):
    r = rng.random()
    if r < 0.34:
        q = rng.random()
        if q < 0.6:
            return ('fit', int(rng.integers(0, nsigs)))
        if q < 0.8:
            return ('fit', int(rng.integers(0, nsigs)), 'same', 'other_band')       # same object, another frequency band
        return ('fit', int(rng.integers(0, nsigs)), 'copy')
    if r < 0.38:
        return ('edit_sig', int(rng.integers(0, nsigs)), str(rng.choice(['negate', 'roll'])))
    if r < 0.50:
        return ('recompute', [None, 0.0, 0.05, 0.1, 0.2, 0.005, 0.0125, 0.125, 0.1234][int(rng.integers(0, 9))])
    if r < 0.58:
        return ('load', int(rng.integers(0, nsigs)))
    if r < 0.72:
        if method == 'cycles':
            key = ['amp_fraction_threshold', 'amp_consistency_threshold', 'period_consistency_threshold',
                   'monotonicity_threshold'][int(rng.integers(0, 4))]
        else:
            key = 'burst_fraction_threshold'
        return ('edit_thr', key, float(rng.choice([0., .2, .4, .6, .9])))
    if r < 0.86:
        return ('edit_thr', 'min_n_cycles', int(rng.choice([1, 2, 4, 6])))
    if method == 'amp':
        if r < 0.93:
            return ('edit_bk', 'min_n_cycles', int(rng.choice([1, 2, 5])))
        if r < 0.97:
            return ('edit_bk', 'amp_threshes', (float(rng.choice([.5, 1.])), float(rng.choice([1.5, 2.5]))))
        return ('del_bk', 'min_n_cycles')
    return ('set', 'center_extrema', str(rng.choice(['peak', 'trough'])))


def make_sigs(rng, fs, lo, hi, n):
    out = []
    for i in range(n):
        s, _ = gen.gen_signal(rng, fs, lo, hi, rng.uniform(1.5, 3.5), str(rng.choice(['bursty', 'oscnoise', 'asine', 'noise', 'sum'])))
        out.append(s)
    return out


def group_case(sh, rng, shape=None, axis='random', reduction='random'):
    """BycycleGroup: models mirror df_features and sigs position by position (2-D and 3-D), then recompute_edges."""
    from bycycle import BycycleGroup
    fs, lo, hi = gen.gen_config(rng, small=True)
    three = rng.random() < 0.5 if shape is None else len(shape) == 2
    shape = ((int(rng.integers(1, 4)), int(rng.integers(1, 4))) if three else (int(rng.integers(2, 5)),)) if shape is None else tuple(shape)
    nsamp = int(fs * 2)
    rows = [gen.gen_signal(rng, fs, lo, hi, nsamp / fs, 'bursty')[0][:nsamp] + 1e-3 * i for i in range(int(np.prod(shape)))]
    sigs = np.array(rows).reshape(shape + (nsamp,))
    settings = gen_settings(rng, lo, 'cycles')
    axis_r = ([0, 1, (0, 1)] if three else [0, None])[int(rng.integers(0, 3 if three else 2))]
    axis = axis_r if axis == 'random' else axis
    refit = None
    if rng.random() < 0.7:
        shape2 = (shape[0], int(rng.choice([m for m in (1, 2, 3) if len(shape) < 2 or m != shape[1]]))) if rng.random() < 0.7 else (int(rng.integers(2, 4)),)
        rows2 = [gen.gen_signal(rng, fs, lo, hi, nsamp / fs, 'bursty')[0][:nsamp] + 2e-3 * i for i in range(int(np.prod(shape2)))]
        refit = np.array(rows2).reshape(shape2 + (nsamp,))
    case = {'group': True, 'sigs': sigs, 'fs': fs, 'f_range': (lo, hi), 'settings': settings, 'axis': axis, 'refit': refit,
            'reduction': [None, 0.0, 0.1, 0.2][int(rng.integers(0, 4))] if reduction == 'random' else reduction}
    case['rebind'] = bool(rng.random() < 0.5)
    if rng.random() < 0.5:
        case['edit_before_recompute'] = [['monotonicity_threshold', 0.3], ['amp_consistency_threshold', 0.2], ['min_n_cycles', 2],
                                         ['period_consistency_threshold', 0.25]][int(rng.integers(0, 4))]
    if shape is not None and len(shape) == 2 and shape[0] != shape[1] and case['reduction'] is not None:
        sh.note('group_3d_unequal_extents_with_recompute_edges')
    run_group(sh, case)


def run_group(sh, case, driver='group'):
    from bycycle import BycycleGroup
    sigs = np.asarray(case['sigs'])
    vs = []
    bg = BycycleGroup(**copy.deepcopy(case['settings']))
    axis = case['axis']
    axis = tuple(axis) if isinstance(axis, list) else axis
    _, e = outcome(lambda: bg.fit(np.array(sigs, copy=True), case['fs'], tuple(case['f_range']), axis=axis, n_jobs=2))
    if e is not None:
        sh.note('group_fit_raised:' + type(e).__name__)
        sh.case_done(case, False)
        return
    attach.count('eval:group_models_compared')
    idx = list(itertools.product(*[range(n) for n in sigs.shape[:-1]]))
    for ix in idx:
        m, d = bg.models, bg.df_features
        for i in ix:
            m, d = m[i], d[i]
        if m.df_features is not d and poollog.tables_equal(m.df_features, d) is not None:
            vs.append({'mechanism': 'models-do-not-mirror-df_features', 'message': 'models%s' % (list(ix),)})
            break
        if not np.array_equal(m.sig, sigs[ix]):
            vs.append({'mechanism': 'models-do-not-mirror-sigs', 'message': 'models%s.sig is not sigs%s' % (list(ix), list(ix))})
            break
        if m.fs != case['fs'] or tuple(m.f_range) != tuple(case['f_range']):
            vs.append({'mechanism': 'models-do-not-mirror-settings', 'message': 'models%s fs/f_range' % (list(ix),)})
            break
    if len(bg) != sigs.shape[0] or [id(x) for x in bg] != [id(x) for x in bg.models] or bg[0] is not bg.models[0]:
        vs.append({'mechanism': 'group-container-protocol', 'message': 'len/iter/getitem do not reflect models'})
    # edge recomputation on the group: every model's table becomes the functional recomputation of ITS OWN fitted table
    if not vs and case.get('reduction') is not None and Shadow(case['settings']).method == 'cycles':
        from bycycle.burst import recompute_edges
        sh_ = Shadow(case['settings'])
        r = case['reduction']
        before = {}
        for ix in idx:
            m = bg.models
            for i in ix:
                m = m[i]
            before[ix] = m.df_features.copy(deep=True)
        if case.get('edit_before_recompute'):
            # the group's thresholds are edited in place after the fit: the recomputation uses the CURRENT thresholds lowered by r
            key, val = case['edit_before_recompute']
            bg.thresholds[key] = val
            sh_.thresholds[key] = val
            sh.note('group_thresholds_edited_before_recompute')
        _, eo = outcome(lambda: bg.recompute_edges(r))
        attach.count('eval:group_recompute_compared')
        sh.note('group_recompute:%s' % (list(sigs.shape[:-1]),))
        for ix in idx:
            ref, er = outcome(lambda: recompute_edges(before[ix].copy(), sh_.reduced(r)))
            if (eo is None) != (er is None):
                vs.append({'mechanism': 'group-recompute-edges-outcome', 'message': 'BycycleGroup.recompute_edges(%r): %r, functional recomputation of models%s: %r'
                                                                                    % (r, eo, list(ix), er)})
                break
            if eo is not None:
                break
            m = bg.models
            for i in ix:
                m = m[i]
            d = poollog.tables_equal(m.df_features, ref)
            if d is not None:
                stale = poollog.tables_equal(m.df_features, before[ix]) is None
                vs.append({'mechanism': 'group-recompute-edges-differs-from-functional',
                           'message': 'after BycycleGroup.recompute_edges(%r) models%s differs from recompute_edges(fitted table, thresholds - r): %s%s'
                                      % (r, list(ix), d, ' (it still holds the fitted table)' if stale else '')})
                break
    # history on the group object: a second fit on an array of another shape must leave no trace of the first one
    if not vs and case.get('refit') is not None:
        sigs2 = np.asarray(case['refit'])
        axis2 = 0
        fresh = BycycleGroup(**copy.deepcopy(case['settings']))
        if case.get('edit_before_recompute') and case.get('reduction') is not None and Shadow(case['settings']).method == 'cycles':
            fresh.thresholds[case['edit_before_recompute'][0]] = case['edit_before_recompute'][1]      # the same current settings
        if case.get('rebind'):
            # settings re-assigned on the group between the two fits (new dict objects, another centring): the fresh object gets the
            # same current settings through its constructor
            cur = dict(fresh.thresholds)
            k0 = [k for k in cur if k.endswith('_threshold')][0]
            cur[k0] = 0.15 if cur[k0] != 0.15 else 0.35
            new_center = 'trough' if Shadow(case['settings']).center == 'peak' else 'peak'
            bg.thresholds = dict(cur)
            bg.center_extrema = new_center
            fresh = BycycleGroup(**dict(copy.deepcopy(case['settings']), thresholds=dict(cur), center_extrema=new_center))
            sh.note('group_settings_reassigned_between_fits')
        _, e2 = outcome(lambda: bg.fit(np.array(sigs2, copy=True), case['fs'], tuple(case['f_range']), axis=axis2, n_jobs=1))
        _, e3 = outcome(lambda: fresh.fit(np.array(sigs2, copy=True), case['fs'], tuple(case['f_range']), axis=axis2, n_jobs=1))
        attach.count('eval:group_refit_compared')
        sh.note('group_refit:%s->%s' % (list(sigs.shape[:-1]), list(sigs2.shape[:-1])))
        if (e2 is None) != (e3 is None):
            vs.append({'mechanism': 'group-refit-differs-from-fresh-object', 'message': 'refit: %r, fresh object: %r' % (e2, e3)})
        elif e2 is None:
            def flat(x):
                return [t for r in x for t in (r if isinstance(r, list) else [r])]
            a, b = flat(bg.df_features), flat(fresh.df_features)
            ma, mb = flat(bg.models), flat(fresh.models)
            if len(a) != len(b) or len(ma) != len(mb) or any(poollog.tables_equal(x, y) is not None for x, y in zip(a, b)):
                vs.append({'mechanism': 'group-refit-differs-from-fresh-object',
                           'message': 'after a refit on shape %s: %d tables / %d models, a fresh object has %d / %d'
                                      % (list(sigs2.shape), len(a), len(ma), len(b), len(mb))})
            elif any(x.df_features is not y and poollog.tables_equal(x.df_features, y) is not None for x, y in zip(ma, a)) or \
                    any(not np.array_equal(m.sig, s_) for m, s_ in zip(ma, sigs2.reshape(-1, sigs2.shape[-1]))):
                vs.append({'mechanism': 'models-do-not-mirror-after-refit', 'message': 'models do not mirror df_features / sigs after the refit'})
    for v in vs:
        sh.violate(case, v, driver)
    sh.note('group:%dd:axis=%s' % (sigs.ndim, axis))
    sh.case_done(case, sigs.shape[0] > 1, sample={'group': True, 'shape': list(sigs.shape), 'axis': axis, 'settings': case['settings']})


def run(sh):
    rng = gen.rng_for(sh.seed, PROP, sh.shard)
    K = 22 if sh.tier == 'quick' else 1500
    for it in range(K):
        fs, lo, hi = gen.gen_config(rng, small=True)
        nsig = int(rng.integers(2, 5))
        method = str(rng.choice(['cycles', 'amp', 'amp']))
        settings = gen_settings(rng, lo, method)
        ops = [gen_op(rng, method, nsig) for _ in range(int(rng.integers(2, 11)))]
        if not any(o[0] == 'fit' for o in ops):
            ops.append(('fit', 0))
        lo2 = lo * float(rng.choice([0.5, 1.5, 2.0]))
        hi2 = min(lo2 + (hi - lo), fs / 2 - 1)
        case = {'sigs': make_sigs(rng, fs, lo, hi, nsig), 'fs': fs, 'f_range': (lo, hi), 'f_range2': (lo2, hi2), 'settings': settings,
                'ops': ops}
        run_history(sh, case)
    # exhaustive small scope: every history of length <= L over a reduced alphabet, both methods
    L = 3 if sh.tier == 'quick' else 4
    fs, lo, hi = 250., 8., 12.
    rs = np.random.default_rng(12345)
    sigs = make_sigs(rs, fs, lo, hi, 2)
    tot = 0
    for method in ('cycles', 'amp'):
        alpha = [('fit', 0), ('fit', 1, 'same', 'other_band'), ('edit_thr', 'min_n_cycles', 5), ('recompute', 0.1), ('load', 1)]
        alpha += [('edit_thr', 'monotonicity_threshold', .5)] if method == 'cycles' else \
            [('edit_bk', 'min_n_cycles', 2), ('edit_thr', 'burst_fraction_threshold', .5)]
        settings = {'burst_method': method, 'thresholds': ({'amp_consistency': .4, 'monotonicity_threshold': .7, 'min_n_cycles': 3}
                                                          if method == 'cycles' else {'burst_fraction': .8})}
        hid = 0
        for n in range(1, L + 1):
            for ops in itertools.product(alpha, repeat=n):
                hid += 1
                if hid % sh.nshards != sh.shard:
                    continue
                if not any(o[0] == 'fit' for o in ops):
                    continue
                run_history(sh, {'sigs': sigs, 'fs': fs, 'f_range': (lo, hi), 'f_range2': (15., 25.), 'settings': settings, 'ops': [list(o) for o in ops]},
                            'exhaustive')
                tot += 1
    sh.exhaustive['histories_len<=%d_reduced_alphabet_both_methods' % L] = {'histories': tot}
    for it in range(3 if sh.tier == 'quick' else 40):
        guarded(sh, group_case, sh, rng)
    # every shard: one 3-D group with unequal extents (and one 2-D group) followed by BycycleGroup.recompute_edges
    cover = [(2, 3), (3, 2), (1, 3), (3, 1), (1, 2), (2, 1), (2, 3), (3, 2)]
    guarded(sh, group_case, sh, rng, cover[sh.shard % len(cover)], [0, 1, (0, 1)][sh.shard % 3], [0.0, 0.1, 0.2][(sh.shard // 3) % 3])
    guarded(sh, group_case, sh, rng, (2 + sh.shard % 3,), [0, None][sh.shard % 2], 0.1)


def replay(sh, driver, case):
    if case.get('group'):
        run_group(sh, case, driver)
    else:
        case['ops'] = [tuple(o) if isinstance(o, list) else o for o in case['ops']]
        run_history(sh, case, driver)
