"""C15 - analysis functions are pure: no input mutation, no call-history dependence."""
import copy

import numpy as np
import pandas as pd

from .. import attach, gen, pipeline, poollog, purity
from ..runner import quiet, guarded

PROP = 'C15'


def setup(sh):
    purity.install()


def same(a, b):
    """Equality of two results (tables, arrays, tuples/lists of them, None)."""
    if isinstance(a, pd.DataFrame) or isinstance(b, pd.DataFrame):
        if not (isinstance(a, pd.DataFrame) and isinstance(b, pd.DataFrame)):
            return False
        return poollog.tables_equal(a, b) is None
    if isinstance(a, (list, tuple)) and isinstance(b, (list, tuple)):
        return len(a) == len(b) and all(same(x, y) for x, y in zip(a, b))
    if isinstance(a, dict) and isinstance(b, dict):
        return set(a) == set(b) and all(same(a[k], b[k]) for k in a)
    if a is None or b is None:
        return a is b
    try:
        return bool(np.array_equal(np.asarray(a, dtype=float), np.asarray(b, dtype=float), equal_nan=True))
    except (TypeError, ValueError):
        return repr(a) == repr(b)


def env_of(case):
    """The shared argument objects of a sequence (materialised from the case)."""
    e = {'sig': np.array(case['sig'], copy=True), 'fs': case['fs'], 'f_range': tuple(case['f_range']),
         'thr': copy.deepcopy(case['thr']), 'bk': copy.deepcopy(case['bk']), 'fek': copy.deepcopy(case['fek']),
         'center': case['center'], 'method': case['method'], 'sigs2': np.array(case['sigs2'], copy=True),
         'sigs3': np.array(case['sigs3'], copy=True)}
    if case.get('readonly'):
        e['sig'].flags.writeable = False
        e['sigs2'].flags.writeable = False
    elif case.get('subclass'):
        # the recording is an instance of an ndarray subclass (np.memmap, arrays that carry metadata): np.asarray of it is a
        # view of the caller's memory, not a copy
        e['sig'] = e['sig'].view(pipeline.Recording)
        attach.count('C15:signal_is_an_ndarray_subclass')
    return e


def do(e, op):
    """One public call on the shared objects of environment ``e``.  Tables produced by earlier calls are shared too."""
    from bycycle.features import (compute_features, compute_shape_features, compute_burst_features, compute_cyclepoints)
    from bycycle.features.burst import (compute_amp_fraction, compute_amp_consistency, compute_period_consistency,
                                        compute_monotonicity, compute_burst_fraction)
    from bycycle.features.shape import compute_durations, compute_extrema_voltage, compute_symmetry, compute_band_amp
    from bycycle.cyclepoints import find_extrema, find_zerox, extrema_interpolated_phase
    from bycycle.group import compute_features_2d, compute_features_3d
    from bycycle.burst import recompute_edges
    from bycycle.utils import limit_df, epoch_df, drop_samples_df
    from bycycle.plts import (plot_burst_detect_summary, plot_burst_detect_param, plot_cyclepoints_df,
                              plot_cyclepoints_array, plot_feature_hist, plot_feature_categorical)
    import matplotlib.pyplot as plt
    sig, fs, fr = e['sig'], e['fs'], e['f_range']

    def table():
        if 'df' not in e:
            e['df'] = compute_features(sig, fs, fr, center_extrema=e['center'], burst_method=e['method'],
                                       burst_kwargs=e['bk'], threshold_kwargs=e['thr'], find_extrema_kwargs=e['fek'])
        return e['df']

    def shape():
        if 'shape' not in e:
            e['shape'] = compute_shape_features(sig, fs, fr, center_extrema=e['center'], find_extrema_kwargs=e['fek'])
        return e['shape']

    def peak_samples():
        if 'samples' not in e:
            e['samples'] = compute_cyclepoints(sig, fs, fr, **(e['fek'] or {}))
        return e['samples']
    k = op[0]
    if k == 'refill':
        # not a library call: the CALLER overwrites its signal buffer in place with the next stretch of data (here: the same
        # samples reversed) and drops the tables it had computed from the old contents
        if e['sig'].flags.writeable:
            e['sig'][...] = np.array(e['sig'][::-1], copy=True)
            for key in ('df', 'shape', 'shape_sub', 'samples', 'sub', 'cps', 'cps0'):
                e.pop(key, None)
        return None
    try:
        if k == 'features':
            return compute_features(sig, fs, fr, center_extrema=e['center'], burst_method=e['method'], burst_kwargs=e['bk'],
                                    threshold_kwargs=e['thr'], find_extrema_kwargs=e['fek'])
        if k == 'features_other_center':
            return compute_features(sig, fs, fr, center_extrema='trough' if e['center'] == 'peak' else 'peak',
                                    burst_method=e['method'], burst_kwargs=e['bk'], threshold_kwargs=e['thr'],
                                    find_extrema_kwargs=e['fek'], return_samples=False)
        if k == 'shape':
            return compute_shape_features(sig, fs, fr, center_extrema=e['center'], find_extrema_kwargs=e['fek'])
        if k == 'burst_features':
            bk = e['bk'] if e['method'] == 'cycles' else e.setdefault('bk_full', dict(e['bk'] or {}, fs=fs, f_range=fr))
            return compute_burst_features(shape(), sig, burst_method=e['method'], burst_kwargs=bk)
        if k == 'burst_features_sub':
            # burst features of a stretch of the shape table that keeps its own row labels
            if 'shape_sub' not in e:
                e['shape_sub'] = shape().iloc[2:].copy()
            bk = e['bk'] if e['method'] == 'cycles' else e.setdefault('bk_full', dict(e['bk'] or {}, fs=fs, f_range=fr))
            return compute_burst_features(e['shape_sub'], sig, burst_method=e['method'], burst_kwargs=bk)
        if k == 'cyclepoints':
            return compute_cyclepoints(sig, fs, fr, **(e['fek'] or {}))
        if k == 'parts':
            s = peak_samples()
            return [compute_durations(s), compute_extrema_voltage(s, sig), compute_symmetry(s, sig),
                    compute_band_amp(s, sig, fs, fr)]
        if k == 'feature_funcs':
            sh_ = shape()
            return [compute_amp_fraction(sh_), compute_amp_consistency(sh_, direction=op[1]),
                    compute_period_consistency(sh_, direction=op[1]), compute_monotonicity(sh_, sig),
                    compute_burst_fraction(sh_, sig, fs, fr)]
        if k == 'extrema_phase':
            p, t = find_extrema(sig, fs, fr, boundary=op[1])
            r, d = find_zerox(sig, p, t)
            e['cps'] = (p, t, r, d)
            return [p, t, r, d, extrema_interpolated_phase(sig, p, t, r, d)]
        if k == 'phase_shared':
            if 'cps0' not in e:
                p, t = find_extrema(sig, fs, fr)
                e['cps0'] = (p, t) + tuple(find_zerox(sig, p, t))
            p, t, r, d = e['cps0']
            return extrema_interpolated_phase(sig, p, t, r, d)
        if k == 'recompute_edges':
            return recompute_edges(table(), e['thr'] if isinstance(e['thr'], dict) else {})
        if k == 'recompute_edges_lax':
            # the usual use: laxer thresholds for the edges than at detection time (the table may hold no burst at all)
            lax = e.setdefault('thr_lax', {'amp_fraction_threshold': 0., 'amp_consistency_threshold': 0., 'period_consistency_threshold': 0.,
                                           'monotonicity_threshold': 0., 'min_n_cycles': 1})
            return recompute_edges(table(), lax)
        if k == 'limit_df':
            return limit_df(table(), fs, start=op[1], stop=op[2], reset_indices=op[3])
        if k == 'epoch_df':
            return epoch_df(table(), len(sig), op[1])
        if k in ('epoch_df_sub', 'limit_df_sub', 'drop_samples_sub'):
            # a stretch of the table that the caller cut out once and keeps (own row labels, absolute sample indices)
            if 'sub' not in e:
                dur = len(sig) / fs
                e['sub'] = limit_df(table(), fs, start=round(dur * 0.55 * 8) / 8, stop=round(dur * 0.95 * 8) / 8, reset_indices=False)
            if k == 'epoch_df_sub':
                return epoch_df(e['sub'], len(sig), op[1])
            if k == 'limit_df_sub':
                return limit_df(e['sub'], fs, start=op[1], stop=None, reset_indices=op[2])
            return drop_samples_df(e['sub'])
        if k == 'drop_samples':
            return drop_samples_df(table())
        if k == 'group2':
            kw = {'center_extrema': e['center'], 'burst_method': e['method'], 'burst_kwargs': e['bk'],
                  'threshold_kwargs': e['thr'], 'find_extrema_kwargs': e['fek']}
            kw = {a: b for a, b in kw.items() if b is not None}
            if op[1] == 'list':
                kw = e.setdefault('kwlist', [kw] * len(e['sigs2']))
            else:
                kw = e.setdefault('kwdict', kw)
            return compute_features_2d(e['sigs2'], fs, fr, compute_features_kwargs=kw, axis=op[2], n_jobs=op[3])
        if k == 'group3':
            kw = e.setdefault('kwdict3', {'center_extrema': e['center'], 'threshold_kwargs': e['thr']}
                              if e['method'] == 'cycles' and isinstance(e['thr'], dict) else {'center_extrema': e['center']})
            return compute_features_3d(e['sigs3'], fs, fr, compute_features_kwargs=kw, axis=op[1], n_jobs=1)
        if k == 'plot_summary':
            thr = e['thr'] if isinstance(e['thr'], dict) and e['thr'] else {'monotonicity_threshold': .5}
            thr = {a: b for a, b in thr.items()}
            e.setdefault('plot_thr', thr)
            plot_burst_detect_summary(table(), sig, fs, e['plot_thr'], xlim=op[1], plot_only_result=op[2])
            return None
        if k == 'plot_param':
            col = 'monotonicity' if e['method'] == 'cycles' else 'burst_fraction'
            plot_burst_detect_param(table(), sig, fs, col, .5, xlim=op[1], interp=op[2])
            return None
        if k == 'plot_cps':
            plot_cyclepoints_df(table(), sig, fs, xlim=op[1])
            if 'cps0' in e:
                p, t, r, d = e['cps0']
                plot_cyclepoints_array(sig, fs, peaks=p, troughs=t, rises=r, decays=d, xlim=op[1])
            return None
        if k == 'plot_features':
            plot_feature_hist(table(), 'volt_amp', only_bursts=False)
            plot_feature_categorical(table(), 'volt_amp', group_by='is_burst')
            return None
        raise KeyError(k)
    finally:
        plt.close('all')


def run_sequence(sh, case, driver='sequence'):
    ops = [tuple(o) for o in case['ops']]
    e = env_of(case)
    results = []
    vs = []
    for i, op in enumerate(ops):
        try:
            with quiet():
                results.append(('ok', do(e, op)))
        except Exception as ex:      # noqa: BLE001
            results.append(('raise', ex))
            if case.get('readonly') and 'read-only' in str(ex):
                vs.append({'mechanism': 'write-to-readonly-input:' + op[0],
                           'message': 'step %d %s tried to write into the caller\'s (read-only) signal: %r' % (i, op, ex)})
        sh.note('op:' + op[0])
        got = [v for v in attach.take_violations() if v['property'] in (PROP, '_monitor')]
        for v in got:
            v = dict(v)
            v['message'] = 'step %d %s: %s' % (i, op, v['message'])
            vs.append(v)
    # history independence: each call, repeated on pristine copies of the arguments, must give the same result
    if not vs:
        for i, op in enumerate(ops):
            pristine = env_of(dict(case, readonly=False))
            if op[0] == 'refill':
                continue
            if not case.get('readonly'):
                for prev in ops[:i]:
                    if prev[0] == 'refill':
                        do(pristine, prev)          # the caller's own edits of its buffer are part of the arguments' values
            try:
                with quiet():
                    ref = ('ok', do(pristine, op))
            except Exception as ex:      # noqa: BLE001
                ref = ('raise', ex)
            attach.take_violations()
            attach.count('eval:history_independence')
            st, val = results[i]
            if st != ref[0]:
                if case.get('readonly'):
                    continue
                vs.append({'mechanism': 'history-dependence:' + op[0],
                           'message': 'step %d %s: %s after the history, %s on pristine arguments (%r / %r)'
                                      % (i, op, st, ref[0], val if st == 'raise' else None, ref[1] if ref[0] == 'raise' else None)})
                break
            if st == 'ok' and not same(val, ref[1]):
                vs.append({'mechanism': 'history-dependence:' + op[0],
                           'message': 'step %d %s returned a different result after the history %s than on pristine arguments'
                                      % (i, op, ops[:i])})
                break
    for v in vs:
        sh.violate(case, v, driver)
    shared = sum(1 for o in ops if o[0] in ('features', 'features_other_center', 'burst_features', 'recompute_edges', 'recompute_edges_lax', 'group2', 'group3',
                                            'limit_df', 'epoch_df', 'epoch_df_sub', 'limit_df_sub', 'plot_summary', 'shape', 'cyclepoints'))
    sample = {k: case[k] for k in ('fs', 'f_range', 'thr', 'bk', 'fek', 'center', 'method', 'ops', 'readonly')}
    sh.case_done(case, len(ops) >= 2 and shared >= 2, sample=sample)


def gen_ops(rng, method, n, nsamp, fs):
    ops = []
    dur = nsamp / fs
    for _ in range(n):
        r = rng.random()
        xlim = None if rng.random() < 0.4 else (round(float(rng.uniform(0, dur / 3)) * 8) / 8, round(float(rng.uniform(dur / 2, dur)) * 8) / 8)
        if r < 0.04:
            ops.append(('refill',))
        elif r < 0.22:
            ops.append(('features',))
        elif r < 0.27:
            ops.append(('features_other_center',))
        elif r < 0.32:
            ops.append(('shape',))
        elif r < 0.37:
            ops.append(('burst_features',))
        elif r < 0.40:
            ops.append(('burst_features_sub',))
        elif r < 0.44:
            ops.append(('cyclepoints',))
        elif r < 0.48:
            ops.append(('parts',))
        elif r < 0.53:
            ops.append(('feature_funcs', ['both', 'next', 'last'][int(rng.integers(0, 3))]))
        elif r < 0.58:
            ops.append(('extrema_phase', int(rng.choice([0, 3]))))
        elif r < 0.61:
            ops.append(('phase_shared',))
        elif r < 0.68:
            ops.append((('recompute_edges',) if rng.random() < 0.5 else ('recompute_edges_lax',)) if method == 'cycles' else ('features',))
        elif r < 0.74:
            ops.append(('limit_df', 0.25, round(dur * 0.75 * 4) / 4, bool(rng.random() < 0.6)))
        elif r < 0.77:
            ops.append(('epoch_df', int(nsamp // int(rng.integers(1, 5)))))
        elif r < 0.79:
            ops.append([('epoch_df_sub', int(nsamp // 2)), ('epoch_df_sub', int(nsamp // 2)), ('limit_df_sub', round(dur * 0.6 * 8) / 8, True),
                        ('drop_samples_sub',)][int(rng.integers(0, 4))])
        elif r < 0.82:
            ops.append(('drop_samples',))
        elif r < 0.89:
            ops.append(('group2', ['dict', 'list'][int(rng.integers(0, 2))], [0, None][int(rng.integers(0, 2))], int(rng.choice([1, 2]))))
        elif r < 0.91:
            ops.append(('group3', [0, 1, (0, 1)][int(rng.integers(0, 3))]))
        elif r < 0.94:
            ops.append(('plot_summary', xlim, bool(rng.random() < 0.5)))
        elif r < 0.96:
            ops.append(('plot_param', xlim, bool(rng.random() < 0.5)))
        elif r < 0.98:
            ops.append(('plot_cps', xlim))
        else:
            ops.append(('plot_features',))
    return ops


def make_case(rng):
    fs, lo, hi = gen.gen_config(rng, small=True)
    nsamp = int(fs * rng.uniform(1.5, 3.0))
    sig, fam = gen.gen_signal(rng, fs, lo, hi, nsamp / fs, str(rng.choice(['bursty', 'oscnoise', 'asine', 'noise', 'sum', 'quant'])))
    sig = sig[:nsamp]
    method = str(rng.choice(['cycles', 'amp', 'amp']))
    if method == 'cycles':
        thr = gen.gen_thresholds_cycles(rng, full=rng.random() < 0.6)
        if rng.random() < 0.3:
            thr.update(monotonicity_threshold=1.0, amp_consistency_threshold=0.95, min_n_cycles=5)     # no cycle bursts
        bk = None
    else:
        thr, bk, _ = gen.gen_amp_options(rng, lo)
        if bk is None and rng.random() < 0.6:
            bk = {}
        if bk:
            bk.pop('min_burst_duration', None)
        if bk is not None and rng.random() < 0.25:
            # the duration-based minimum together with the caller's own (nested) filter options
            bk['min_burst_duration'] = float(rng.choice([1, 2])) / lo
            bk['filter_kwargs'] = {'n_cycles': int(rng.choice([3, 5]))}
    fek = gen.gen_find_extrema_kwargs(rng, fs, lo)       # None, {}, dicts with / without 'filter_kwargs' (n_cycles | n_seconds), boundary, pad
    if fek is not None and 'boundary' in fek and fek['boundary'] > 10:
        fek['boundary'] = 4
    rows = np.array([np.roll(sig, 7 * i) + 1e-3 * i for i in range(4)])
    return {'sig': sig, 'fs': fs, 'f_range': (lo, hi), 'thr': thr, 'bk': bk, 'fek': fek, 'center': str(rng.choice(['peak', 'trough'])),
            'method': method, 'sigs2': rows[:int(rng.integers(2, 4))], 'sigs3': rows.reshape(2, 2, -1),
            'ops': gen_ops(rng, method, int(rng.integers(2, 7)), nsamp, fs), 'readonly': bool(rng.random() < 0.3), 'subclass': bool(rng.random() < 0.3), 'family': fam}


def run(sh):
    rng = gen.rng_for(sh.seed, PROP, sh.shard)
    K = 25 if sh.tier == 'quick' else 600
    for it in range(K):
        guarded(sh, run_sequence, sh, make_case(rng))
    for k, v in attach.COUNTS.items():
        if k.startswith('eval:purity:'):
            sh.classes['fingerprinted:' + k[12:]] = v


_run_generated = run


def run(sh):      # noqa: F811 - thorough tier: the repository's own tests are one more workload for the same monitors
    _run_generated(sh)
    if sh.tier == 'thorough' and sh.shard == 0:
        from .. import repotests
        repotests.run(sh, PROP)


def replay(sh, driver, case):
    run_sequence(sh, case, driver)
