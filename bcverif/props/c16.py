"""C16 - edge recomputation touches only burst edges and only grows bursts."""
import copy
import warnings

import numpy as np
import pandas as pd

from .. import attach, gen, monitors, pipeline, poollog, refs
from ..attach import count, violation
from ..runner import quiet, guarded

PROP = 'C16'
EDITABLE = ('amp_consistency', 'period_consistency', 'is_burst')


def cap(*a, **k):
    df = a[0] if a else k.get('df_features')
    return df.copy(deep=True) if hasattr(df, 'copy') else None


def mon_recompute_edges(result, pre, *a, **k):
    """Post-condition on recompute_edges (snapshot of the input table in ``pre``)."""
    if pre is None:
        return
    orig = attach.original('bycycle.burst.utils', 'recompute_edges')
    args = monitors.bind(orig, a, k)
    df_in = args['df_features']
    thr = dict(args['threshold_kwargs'] or {})
    d = poollog.tables_equal(df_in, pre)
    if d is not None:
        violation(PROP, 'input-table-modified', 'recompute_edges changed its input table: %s' % d)
        return
    if result is df_in:
        violation(PROP, 'input-table-returned', 'recompute_edges returned its input object, not a new table')
        return
    center = monitors.centre_of(pre)
    if center is None or 'is_burst' not in pre.columns:
        count('C16:unreadable_table')
        return
    n = len(pre)
    if len(result) == n and list(result.index) != list(pre.index):
        violation(PROP, 'row-labels-changed', 'input rows %s, result rows %s' % (list(pre.index)[:5], list(result.index)[:5]))
        return
    if not isinstance(pre.index, pd.RangeIndex) or (n and pre.index[0] != 0):
        count('C16:table_with_its_own_row_labels')
    if len(result) != n or list(result.columns) != list(pre.columns):
        violation(PROP, 'rows-or-columns-changed', 'input %d rows %d columns, result %d rows %d columns'
                  % (n, len(pre.columns), len(result), len(result.columns)))
        return
    for c in pre.columns:
        if c in EDITABLE:
            continue
        x, y = pre[c].to_numpy(), result[c].to_numpy()
        if not np.array_equal(x, y, equal_nan=True) if x.dtype.kind == 'f' else not np.array_equal(x, y):
            violation(PROP, 'other-column-changed:' + str(c), 'column %s differs from the input' % c)
            return
    lab = [bool(v) for v in pre['is_burst'].to_numpy().tolist()]
    if n and (lab[0] or lab[-1]):
        count('C16:table_not_from_consistency_detection')
        return
    vr = pre['volt_rise'].to_numpy().astype(float).tolist()
    vd = pre['volt_decay'].to_numpy().astype(float).tolist()
    per = pre['period'].to_numpy().astype(float).tolist()
    ac_next = refs.ref_amp_consistency(vr, vd, center, 'next')
    ac_last = refs.ref_amp_consistency(vr, vd, center, 'last')
    pc_next = refs.ref_period_consistency(per, 'next')
    pc_last = refs.ref_period_consistency(per, 'last')
    allowed = {}      # cycle index -> list of acceptable (amp, period) values
    for (s, e) in refs.runs(lab):
        for c, ac, pc in ((s - 1, ac_next, pc_next), (e, ac_last, pc_last)):
            if 0 <= c < n:
                allowed.setdefault(c, []).append((ac[c], pc[c]))
    count('C16:bursts', len(refs.runs(lab)))
    count('C16:edges', len(allowed))
    old_ac = pre['amp_consistency'].to_numpy().astype(float)
    old_pc = pre['period_consistency'].to_numpy().astype(float)
    new_ac = result['amp_consistency'].to_numpy().astype(float)
    new_pc = result['period_consistency'].to_numpy().astype(float)
    informative = 0
    for c in range(n):
        if c not in allowed:
            if not (refs.same_float(new_ac[c], old_ac[c], 0) and refs.same_float(new_pc[c], old_pc[c], 0)):
                violation(PROP, 'non-edge-cycle-changed', 'cycle %d is not adjacent to a burst but its consistency changed: '
                          'amp %r -> %r, period %r -> %r' % (c, old_ac[c], new_ac[c], old_pc[c], new_pc[c]))
                return
            continue
        outer = (c == 0 or c == n - 1)
        ok = False
        for (ra, rp) in allowed[c]:
            okA = ra is None or refs.same_float(new_ac[c], ra)
            okP = rp is None or refs.same_float(new_pc[c], rp)
            if okA and okP:
                ok = True
            if ra is not None and not refs.same_float(ra, old_ac[c]) or rp is not None and not refs.same_float(rp, old_pc[c]):
                informative += 1
        if outer and not ok:
            # first / last row of the table: no neighbour on the outer side, unchanged NaN also accepted
            ok = refs.same_float(new_ac[c], old_ac[c], 0) and refs.same_float(new_pc[c], old_pc[c], 0)
            count('C16:outer_edge')
        if len(allowed[c]) > 1:
            count('C16:cycle_between_two_bursts')
        if not ok:
            ra, rp = allowed[c][0]
            violation(PROP, 'edge-not-one-sided', 'edge cycle %d (of %d): amp_consistency %r, period_consistency %r; one-sided values '
                      'looking into the burst %s; before the call %r / %r'
                      % (c, n, new_ac[c], new_pc[c], allowed[c], old_ac[c], old_pc[c]))
            return
    if informative:
        count('C16:tables_with_informative_edges')
        count('C16:informative_edges', informative)
    cols = [result[c].to_numpy().astype(float).tolist() for c in ('amp_fraction', 'amp_consistency', 'period_consistency', 'monotonicity')]
    exp, _ = refs.ref_labels_cycles(cols[0], cols[1], cols[2], cols[3], thr)
    got = [bool(v) for v in result['is_burst'].to_numpy().tolist()]
    if got != exp:
        i = refs.first_diff(got, exp)
        violation(PROP, 'labels-not-rule-on-edited-table', 'cycle %s: is_burst %s, threshold-and-run rule on the edited table %s'
                  % (i, got[i] if i < len(got) else None, exp[i] if i < len(exp) else None))
        return
    if sum(got) > sum(lab):
        count('C16:tables_where_bursts_grew')


def setup(sh):
    attach.attach('bycycle.burst.utils', 'recompute_edges', attach.ensure_with_snapshot('recompute_edges', cap, mon_recompute_edges))


def one(sh, case, driver='generated'):
    from bycycle.features import compute_features
    from bycycle.burst import recompute_edges
    from bycycle import Bycycle
    thr = copy.deepcopy(case['thr'])
    r = case['reduction']
    vs = []
    try:
        with quiet():
            df = compute_features(np.array(case['sig'], copy=True), case['fs'], tuple(case['f_range']), center_extrema=case['center'],
                                  burst_method='cycles', threshold_kwargs=copy.deepcopy(thr))
    except Exception as e:
        sh.note('table_raised:' + type(e).__name__)
        sh.case_done(case, False)
        return
    red = {k: (v - r if k.endswith('threshold') else v) for k, v in thr.items()}
    if case.get('index') and case.get('api') != 'obj' and len(df):
        # a table that carries its own row labels (it was stored / selected from a longer table): rows are positional
        df.index = pd.RangeIndex(11, 11 + len(df)) if case['index'] == 'offset' else pd.Index(np.arange(len(df)) * 2 + 1)
    before = dict(attach.COUNTS)
    old = df['is_burst'].to_numpy().astype(bool).copy()
    res = None
    with warnings.catch_warnings(record=True) as wl:
        warnings.simplefilter('always')
        try:
            if case.get('api') == 'obj':
                bm = Bycycle(center_extrema=case['center'], thresholds=copy.deepcopy(thr))
                bm.load(df, case['sig'], case['fs'], tuple(case['f_range']))
                bm.recompute_edges(r)
                res = bm.df_features
                if case.get('twice'):
                    # a second recomputation on the same object: again the object's thresholds lowered by r (not by 2r), applied to
                    # the table the object holds now
                    held = res.copy(deep=True)
                    bm.recompute_edges(r)
                    exp2 = recompute_edges(held.copy(deep=True), red)
                    attach.count('C16:second_recomputation_on_the_object')
                    d2 = poollog.tables_equal(bm.df_features, exp2)
                    if d2 is not None:
                        vs.append({'mechanism': 'second-recomputation-not-thresholds-minus-r',
                                   'message': 'second Bycycle.recompute_edges(%r) differs from recompute_edges(held table, thresholds - r): %s' % (r, d2)})
            else:
                res = recompute_edges(df, red)
        except ValueError as e:
            if min([v for k, v in red.items() if k.endswith('threshold')] or [0]) < 0:
                sh.note('reduced_threshold_negative_rejected')
            else:
                vs.append({'mechanism': attach.exc_mechanism(e), 'message': 'recompute_edges raised %r' % (e,)})
        except Exception as e:
            vs.append({'mechanism': attach.exc_mechanism(e), 'message': 'recompute_edges raised %r' % (e,)})
    lost_writes = [w for w in wl if 'ChainedAssignment' in type(w.message).__name__ or 'chained' in str(w.message).lower()]
    if lost_writes:
        sh.note('chained_assignment_warnings', len(lost_writes))
    got = [v for v in attach.take_violations() if v['property'] in (PROP, '_monitor')]
    for v in got:
        if lost_writes and v['mechanism'] == 'edge-not-one-sided':
            v = dict(v, message=v['message'] + ' [%d pandas chained-assignment warnings: writes were dropped]' % len(lost_writes))
        vs.append(v)
    if res is not None and not vs and r == 0:
        new = res['is_burst'].to_numpy().astype(bool)
        attach.count('eval:growth_checked')
        if np.any(old & ~new):
            vs.append({'mechanism': 'burst-cycle-lost', 'message': 'with unchanged thresholds cycle %d was bursting before and is not after'
                                                                   % int(np.flatnonzero(old & ~new)[0])})
    for v in vs:
        sh.violate(case, v, driver)
    delta = attach.COUNTS['C16:tables_with_informative_edges'] - before.get('C16:tables_with_informative_edges', 0)
    sh.note('reduction=%s' % r)
    sh.note('api=%s' % case.get('api', 'func'))
    sample = {k: case[k] for k in ('fs', 'f_range', 'center', 'thr', 'reduction', 'api', 'family')}
    sample['sig'] = 'array(n=%d)' % len(case['sig'])
    sh.case_done(case, res is not None and delta > 0, sample=sample)


def group_case(sh, case, driver='group'):
    """BycycleGroup.recompute_edges: the monitor on recompute_edges fires for every model."""
    from bycycle import BycycleGroup
    sigs = np.asarray(case['sigs'])
    vs = []
    before = attach.COUNTS['eval:recompute_edges']
    try:
        with quiet():
            bg = BycycleGroup(thresholds=copy.deepcopy(case['thr']))
            bg.fit(np.array(sigs, copy=True), case['fs'], tuple(case['f_range']), axis=(0, 1) if sigs.ndim == 3 else 0, n_jobs=1)
            models = [m for r in bg.models for m in (r if isinstance(r, list) else [r])]
            old = [m.df_features['is_burst'].to_numpy().astype(bool).copy() for m in models]
    except Exception as e:
        # the fit itself is not this property's business (a row without enough oscillations is outside the domain)
        sh.note('group_fit_raised:' + type(e).__name__)
        attach.take_violations()
        sh.case_done(case, False)
        return
    befores = [m.df_features.copy(deep=True) for m in models]
    if case.get('edit'):
        # a threshold edited in place on the group after the fit: the recomputation uses the group's CURRENT thresholds
        bg.thresholds[case['edit'][0]] = case['edit'][1]
        sh.note('group_threshold_edited_before_recompute')
    try:
        with quiet():
            bg.recompute_edges(case['reduction'])
    except ValueError:
        sh.note('group_reduced_threshold_rejected')
        attach.take_violations()
        sh.case_done(case, False)
        return
    except Exception as e:
        vs.append({'mechanism': attach.exc_mechanism(e), 'message': 'BycycleGroup.recompute_edges raised %r' % (e,)})
    vs += [v for v in attach.take_violations() if v['property'] in (PROP, '_monitor')]
    if not vs:
        n_models = int(np.prod(sigs.shape[:-1]))
        if attach.COUNTS['eval:recompute_edges'] - before != n_models:
            vs.append({'mechanism': 'group-models-not-all-recomputed',
                       'message': '%d signals (array %s), %d edge recomputations observed'
                                  % (n_models, list(sigs.shape[:-1]), attach.COUNTS['eval:recompute_edges'] - before)})
        elif case['reduction'] in (None, 0, 0.0):
            for i, m in enumerate(models):
                new = m.df_features['is_burst'].to_numpy().astype(bool)
                if np.any(old[i] & ~new):
                    vs.append({'mechanism': 'burst-cycle-lost', 'message': 'group model %d lost a burst cycle with unchanged thresholds' % i})
                    break
    if not vs:
        from bycycle.burst import recompute_edges
        r_ = case['reduction'] or 0
        cur = {k: (v - r_ if k.endswith('threshold') else v) for k, v in bg.thresholds.items()}
        for i, (m, b0) in enumerate(zip(models, befores)):
            try:
                with quiet():
                    exp = recompute_edges(b0.copy(deep=True), dict(cur))
            except Exception:
                break
            d = poollog.tables_equal(m.df_features, exp)
            if d is not None:
                vs.append({'mechanism': 'group-recompute-not-with-current-thresholds',
                           'message': 'model %d after BycycleGroup.recompute_edges(%r) differs from recompute_edges(fitted table, current thresholds - r): %s'
                                      % (i, case['reduction'], d)})
                break
        attach.take_violations()
    for v in vs:
        sh.violate(case, v, driver)
    sh.note('group_recompute_runs')
    sh.note('group_recompute:%dd' % sigs.ndim)
    sh.case_done(case, True, sample={'group_rows': len(sigs), 'thr': case['thr'], 'reduction': case['reduction']})


def run(sh):
    rng = gen.rng_for(sh.seed, PROP, sh.shard)
    K = 30 if sh.tier == 'quick' else 1500
    for it in range(K):
        fs, lo, hi = gen.gen_config(rng)
        sig, fam = gen.gen_signal(rng, fs, lo, hi, rng.uniform(2.0, 7.0),
                                  str(rng.choice(['bursty', 'bursty', 'oscnoise', 'asine', 'noise', 'sum', 'chirp', 'quant', 'zeroed'])))
        thr = dict(amp_fraction_threshold=float(rng.choice([0, .1, .3])), amp_consistency_threshold=float(rng.choice([.2, .4, .6])),
                   period_consistency_threshold=float(rng.choice([.3, .5, .7])), monotonicity_threshold=float(rng.choice([.3, .5, .7])),
                   min_n_cycles=int(rng.choice([1, 2, 3])))
        case = {'sig': sig, 'fs': fs, 'f_range': (lo, hi), 'center': str(rng.choice(['peak', 'trough'])), 'thr': thr,
                'reduction': float(rng.choice([0, 0, .05, .1, .2, -.1, -.2])), 'api': 'func' if rng.random() < 0.75 else 'obj', 'family': fam,
                'index': [None, None, None, 'offset', 'gaps'][int(rng.integers(0, 5))], 'twice': bool(rng.random() < 0.5)}
        one(sh, case)
        if it % 10 == 0:
            rows = [gen.gen_signal(rng, fs, lo, hi, 3.0, 'bursty')[0][:int(3 * fs) - 2] for _ in range(3)]
            guarded(sh, group_case, sh, {'sigs': np.array(rows), 'fs': fs, 'f_range': (lo, hi), 'thr': thr, 'reduction': case['reduction'],
                                         'edit': [['amp_consistency_threshold', 0.05], ['monotonicity_threshold', 0.2], None][(it // 10 + sh.shard) % 3]})
            # ... and a 3-D group whose first two extents differ
            shp = [(2, 3), (3, 2), (1, 3), (3, 1)][(it // 10 + sh.shard) % 4]
            rows3 = [gen.gen_signal(rng, fs, lo, hi, 3.0, 'bursty')[0][:int(3 * fs) - 2] + 1e-3 * j for j in range(shp[0] * shp[1])]
            guarded(sh, group_case, sh, {'sigs': np.array(rows3, dtype=float).reshape(shp + (-1,)), 'fs': fs, 'f_range': (lo, hi), 'thr': thr,
                                         'reduction': case['reduction']})
    for k, v in attach.COUNTS.items():
        if k.startswith('C16:'):
            sh.classes[k[4:]] = v


_run_generated = run


def run(sh):      # noqa: F811 - thorough tier: the repository's own tests are one more workload for the same monitors
    _run_generated(sh)
    if sh.tier == 'thorough' and sh.shard == 0:
        from .. import repotests
        repotests.run(sh, PROP)


def replay(sh, driver, case):
    if driver == 'group':
        group_case(sh, case, driver)
    else:
        one(sh, case, driver)
