"""C17 - interpolated phase is anchored at cyclepoints and monotone between them."""
import itertools
import math

import numpy as np

from .. import attach, gen, monitors
from ..attach import count, violation
from ..runner import quiet

PROP = 'C17'
TOL = 1e-9


def in_quantifier(n, peaks, troughs, rises, decays):
    """Alternating extrema at least two samples apart, inside the array, every supplied midpoint on its own flank (rise:
    trough..peak, decay: peak..trough, at most one per flank).  A cyclepoint set may also begin or end with a midpoint: one
    decay before a leading trough / rise before a leading peak, one decay after a final peak / rise after a final trough.
    Returns (ok, sorted extrema, (first, last) cyclepoint of the whole set)."""
    ext = sorted([(p, 'p') for p in peaks] + [(t, 't') for t in troughs])
    if len(ext) < 1 or (len(ext) == 1 and not ((rises or []) + (decays or []))):
        return False, ext, None          # at least one extremum and at least two cyclepoints in all
    for (x, kx), (y, ky) in zip(ext[:-1], ext[1:]):
        if kx == ky or y - x < 2:
            return False, ext, None
    first, last = ext[0][0], ext[-1][0]
    if first < 0 or last >= n:
        return False, ext, None
    span = [first, last]
    used = set()
    for lst, start_kind in ((rises, 't'), (decays, 'p')):
        for m in (lst or []):
            if m < 0 or m >= n:
                return False, ext, None
            if m < first:
                # leading midpoint: the flank that ends in the first extremum (rise -> peak, decay -> trough)
                if 'lead' in used or ext[0][1] == start_kind:
                    return False, ext, None
                used.add('lead')
                span[0] = min(span[0], m)
                continue
            if m > last:
                if 'trail' in used or ext[-1][1] != start_kind:
                    return False, ext, None
                used.add('trail')
                span[1] = max(span[1], m)
                continue
            hit = None
            for fi, ((x, kx), (y, ky)) in enumerate(zip(ext[:-1], ext[1:])):
                if kx == start_kind and x <= m <= y and fi not in used:
                    hit = fi
                    break
            if hit is None:
                return False, ext, None
            used.add(hit)
    return True, ext, tuple(span)


def mon_phase(result, pre, *a, **k):
    orig = attach.original('bycycle.cyclepoints.phase', 'extrema_interpolated_phase')
    args = monitors.bind(orig, a, k)
    n = len(args['sig'])
    peaks = [int(v) for v in np.asarray(args['peaks']).tolist()]
    troughs = [int(v) for v in np.asarray(args['troughs']).tolist()]
    rises = None if args['rises'] is None else [int(v) for v in np.asarray(args['rises']).tolist()]
    decays = None if args['decays'] is None else [int(v) for v in np.asarray(args['decays']).tolist()]
    ok, ext, span = in_quantifier(n, peaks, troughs, rises, decays)
    if not ok:
        count('C17:outside_quantifier')
        return
    first, last = span
    if first < ext[0][0]:
        count('C17:leading_midpoint:gap=%d' % min(3, ext[0][0] - first))
    if last > ext[-1][0]:
        count('C17:trailing_midpoint:gap=%d' % min(3, last - ext[-1][0]))
    pha = np.asarray(result, dtype=float)
    count('C17:last_cyclepoint=%s:to_end=%s' % (ext[-1][1] if last == ext[-1][0] else 'm', min(2, n - 1 - last)))
    count('C17:first_cyclepoint=%s:from_start=%s' % (ext[0][1] if first == ext[0][0] else 'm', min(2, first)))
    if len(pha) != n:
        violation(PROP, 'length', 'phase has %d values for %d samples' % (len(pha), n))
        return
    desc = 'peaks=%s troughs=%s rises=%s decays=%s n=%d' % (peaks[:6], troughs[:6], None if rises is None else rises[:6],
                                                            None if decays is None else decays[:6], n)
    inside = pha[first:last + 1]
    if np.any(~np.isfinite(inside)):
        i = first + int(np.flatnonzero(~np.isfinite(inside))[0])
        allnan = bool(np.all(np.isnan(pha)))
        where = ':leading-midpoint' if i < ext[0][0] else (':trailing-midpoint' if i > ext[-1][0] else '')
        violation(PROP, 'nan-inside-span' + (':all-nan' if allnan else where),
                  'phase is NaN at sample %d inside the span [%d, %d]%s; %s' % (i, first, last, ' (whole array is NaN)' if allnan else '', desc))
        return
    outside = np.concatenate([pha[:first], pha[last + 1:]])
    if np.any(np.isfinite(outside)):
        idx = [i for i in list(range(0, first)) + list(range(last + 1, n)) if np.isfinite(pha[i])]
        violation(PROP, 'finite-outside-span:%s' % ('after-last' if idx[0] > last else 'before-first'),
                  'phase is finite (%r) at sample %d outside the span [%d, %d] (last cyclepoint is a %s); %s'
                  % (pha[idx[0]], idx[0], first, last, 'peak' if ext[-1][1] == 'p' else 'trough', desc))
        return
    if np.any(np.abs(inside) > math.pi + TOL):
        violation(PROP, 'range', 'phase outside [-pi, pi]; %s' % desc)
        return
    extset = {e[0] for e in ext}
    for p in peaks:
        if abs(pha[p]) > TOL:
            violation(PROP, 'anchor:peak', 'phase %r at peak %d; %s' % (pha[p], p, desc))
            return
    for t in troughs:
        if abs(abs(pha[t]) - math.pi) > TOL:
            violation(PROP, 'anchor:trough', 'phase %r at trough %d; %s' % (pha[t], t, desc))
            return
    coincide = 0
    for lst, val, nm in ((rises, -math.pi / 2, 'rise'), (decays, math.pi / 2, 'decay')):
        for m in (lst or []):
            if m in extset:
                coincide += 1
                continue
            if abs(pha[m] - val) > TOL:
                violation(PROP, 'anchor:' + nm, 'phase %r at %s midpoint %d; %s' % (pha[m], nm, m, desc))
                return
    if coincide:
        count('C17:midpoint_coincides_with_extremum', coincide)
    tset = set(troughs)
    for i in (first + np.flatnonzero(np.diff(inside) < -TOL)).tolist():
        if pha[i + 1] < pha[i] - TOL:
            if (i + 1) in tset or i in tset:
                continue                 # the +pi -> -pi wrap at a trough
            violation(PROP, 'not-monotone', 'phase decreases from %r to %r at samples %d/%d, not at a trough; %s'
                      % (pha[i], pha[i + 1], i, i + 1, desc))
            return


def setup(sh):
    attach.attach('bycycle.cyclepoints.phase', 'extrema_interpolated_phase',
                  attach.ensure_with_snapshot('extrema_interpolated_phase', lambda *a, **k: None, mon_phase))


def call(sh, n, peaks, troughs, rises, decays, driver, sig=None):
    from bycycle.cyclepoints import extrema_interpolated_phase
    sig = np.zeros(n) if sig is None else sig
    vs = []
    try:
        with quiet():
            extrema_interpolated_phase(sig, np.asarray(peaks, dtype=int), np.asarray(troughs, dtype=int),
                                       None if rises is None else np.asarray(rises, dtype=int),
                                       None if decays is None else np.asarray(decays, dtype=int))
    except Exception as e:
        okq, _, _ = in_quantifier(n, [int(v) for v in peaks], [int(v) for v in troughs],
                               None if rises is None else [int(v) for v in rises], None if decays is None else [int(v) for v in decays])
        if okq:
            vs.append({'mechanism': attach.exc_mechanism(e), 'message': 'extrema_interpolated_phase raised %r; peaks=%s troughs=%s n=%d'
                                                                        % (e, list(peaks)[:6], list(troughs)[:6], n)})
        else:
            attach.count('C17:raised_outside_quantifier')
    vs += [v for v in attach.take_violations() if v['property'] in (PROP, '_monitor')]
    if vs:
        case = {'n': n, 'peaks': [int(v) for v in peaks], 'troughs': [int(v) for v in troughs],
                'rises': None if rises is None else [int(v) for v in rises],
                'decays': None if decays is None else [int(v) for v in decays]}
        for v in vs:
            sh.violate(case, v, driver)


def placements(n, kmin=2):
    """All increasing index sequences on range(n) with gaps >= 2 and at least kmin elements."""
    def rec(start, acc):
        if len(acc) >= kmin:
            yield tuple(acc)
        for i in range(start, n):
            acc.append(i)
            yield from rec(i + 2, acc)
            acc.pop()
    yield from rec(0, [])


def exhaustive(sh, N, cap_prod):
    tot = nt = partial = edge = 0
    pid = 0
    for n in range(3, N + 1):
        for pos in placements(n):
            pid += 1
            if pid % sh.nshards != sh.shard:
                continue
            for first_kind in ('p', 't'):
                kinds = [first_kind if i % 2 == 0 else ('t' if first_kind == 'p' else 'p') for i in range(len(pos))]
                peaks = [p for p, kd in zip(pos, kinds) if kd == 'p']
                troughs = [p for p, kd in zip(pos, kinds) if kd == 't']
                call(sh, n, peaks, troughs, None, None, 'exhaustive')
                tot += 1
                flanks = list(zip(pos[:-1], pos[1:], kinds[:-1]))
                choices = [list(range(a, b + 1)) for a, b, _ in flanks]
                prod = 1
                for c in choices:
                    prod *= len(c)
                if prod <= cap_prod:
                    combos = itertools.product(*choices)
                else:
                    partial += 1
                    combos = [tuple(c[0] for c in choices), tuple(c[len(c) // 2] for c in choices), tuple(c[-1] for c in choices)]
                for combo in combos:
                    rises = [m for m, (a, b, kd) in zip(combo, flanks) if kd == 't']
                    decays = [m for m, (a, b, kd) in zip(combo, flanks) if kd == 'p']
                    call(sh, n, peaks, troughs, rises, decays, 'exhaustive')
                    call(sh, n, peaks, troughs, rises, None, 'exhaustive')        # one family of midpoints only
                    call(sh, n, peaks, troughs, None, decays, 'exhaustive')
                    tot += 3
                # cyclepoint sets that begin and / or end with a midpoint (every position before the first / after the last
                # extremum), with the interior midpoints at three representative positions per flank
                reps = [tuple(c[0] for c in choices), tuple(c[len(c) // 2] for c in choices), tuple(c[-1] for c in choices)]
                for lead in [None] + list(range(0, pos[0])):
                    for trail in [None] + list(range(pos[-1] + 1, n)):
                        if lead is None and trail is None:
                            continue
                        for combo in (reps if len(pos) <= 4 else reps[1:2]):
                            rises = [m for m, (a, b, kd) in zip(combo, flanks) if kd == 't']
                            decays = [m for m, (a, b, kd) in zip(combo, flanks) if kd == 'p']
                            if lead is not None:
                                (rises if kinds[0] == 'p' else decays).append(lead)
                            if trail is not None:
                                (decays if kinds[-1] == 'p' else rises).append(trail)
                            call(sh, n, peaks, troughs, sorted(rises), sorted(decays), 'exhaustive')
                            tot += 1
                            edge += 1
                if len(peaks) >= 2 and len(troughs) >= 2:
                    nt += 1
                    sh.nontrivial.add('x%d:%d:%s' % (n, pid, first_kind))
    # cyclepoint sets with a single extremum: (rise,) peak (, decay) and (decay,) trough (, rise) at every position
    single = 0
    for n in range(2, min(N, 11) + 1):
        for e in range(n):
            pid += 1
            if pid % sh.nshards != sh.shard:
                continue
            for kind in 'pt':
                for lead in [None] + list(range(e)):
                    for trail in [None] + list(range(e + 1, n)):
                        if lead is None and trail is None:
                            continue
                        rises, decays = [], []
                        if lead is not None:
                            (rises if kind == 'p' else decays).append(lead)
                        if trail is not None:
                            (decays if kind == 'p' else rises).append(trail)
                        call(sh, n, [e] if kind == 'p' else [], [e] if kind == 't' else [], rises, decays, 'exhaustive')
                        single += 1
    tot += single
    attach.count('C17:sets_with_a_single_extremum', single)
    sh.cases += tot
    sh.exhaustive['alternating_placements_gap>=2_len<=%d' % N] = {'cases': tot, 'placements_with_partial_midpoint_enumeration': partial,
                                                                   'midpoint_product_cap': cap_prod,
                                                                   'sets_beginning_or_ending_with_a_midpoint': edge}
    sh.samples.append({'n': 9, 'peaks': [1, 6], 'troughs': [3, 8], 'rises': [5], 'decays': [2, 7],
                       'space': 'every alternating placement with gaps >= 2 on arrays up to length %d, midpoints per flank' % N})


def run(sh):
    from bycycle.cyclepoints import find_extrema, find_zerox
    N = 13 if sh.tier == 'quick' else 17
    exhaustive(sh, N, 64 if sh.tier == 'quick' else 1024)
    rng = gen.rng_for(sh.seed, PROP, sh.shard)
    K = 50 if sh.tier == 'quick' else 2500
    for it in range(K):
        fs, lo, hi = gen.gen_config(rng)
        fam = 'tail' if rng.random() < 0.4 else None
        sig, kind = gen.gen_signal(rng, fs, lo, hi, rng.uniform(0.8, 5.0), fam)
        fe = [None, 'peak', 'trough'][int(rng.integers(0, 3))]
        boundary = int(rng.choice([0, 0, 1, 5]))
        try:
            with quiet():
                p, t = find_extrema(sig, fs, (lo, hi), boundary=boundary, first_extrema=fe, pad=bool(rng.random() < 0.8),
                                    filter_kwargs={'n_cycles': int(rng.choice([2, 3, 5]))})
                r, d = find_zerox(sig, p, t)
        except Exception:
            sh.note('generated:cyclepoints_raised')
            continue
        if len(p) < 1 or len(t) < 1:
            continue
        mode = ['none', 'both', 'both', 'rises_only', 'decays_only'][int(rng.integers(0, 5))]
        with_mid = mode != 'none'
        before = attach.COUNTS['C17:outside_quantifier']
        call(sh, len(sig), p, t, r if mode in ('both', 'rises_only') else None, d if mode in ('both', 'decays_only') else None,
             'generated', sig=sig)
        sh.note('generated:midpoints=' + mode)
        inq = attach.COUNTS['C17:outside_quantifier'] == before
        sh.note('generated:%s' % ('in_quantifier' if inq else 'outside_quantifier'))
        sh.case_done(None, inq and len(p) >= 2 and len(t) >= 2, key='g%d:%d' % (sh.shard, it),
                     sample={'family': kind, 'n': len(sig), 'first_extrema': fe, 'boundary': boundary, 'midpoints': mode,
                             'peaks': [int(v) for v in p[:3]], 'troughs': [int(v) for v in t[:3]],
                             'last_extrema': [int(p[-1]), int(t[-1])]})
    if sh.shard == 0:
        # one very long recording (hours at 1 kHz: more than 2**24 samples) with its cyclepoints near the end: sample indices beyond
        # the exact range of single-precision numbers
        n = 2 ** 24 + int(rng.integers(60000, 120000))
        pos = n - 100000 + np.cumsum(rng.integers(3, 330, size=600))
        pos = pos[pos < n - 2]
        p, t = pos[0::2], pos[1::2]
        m = min(len(p), len(t))
        p, t = p[:m], t[:m]
        # ... preceded by one very slow half cycle (an infra-slow wave sampled at a high rate): a trough more than 10^5 samples before
        # the first peak, so that the phase advances by a few 10^-5 rad per sample there
        t = np.concatenate([[p[0] - int(rng.integers(110000, 250000))], t])
        mode = ['none', 'both'][int(rng.integers(0, 2))]
        r = d = None
        if mode == 'both':
            # midpoints strictly between the extrema they separate (rise: trough -> peak, decay: peak -> trough)
            d = np.array([(a + b) // 2 for a, b in zip(p, t[1:]) if b - a >= 2])
            r = np.array([(a + b) // 2 for a, b in zip(t[:-1], p) if b - a >= 2])
        before = attach.COUNTS['C17:outside_quantifier']
        call(sh, n, p, t, r, d, 'long_recording')
        inq = attach.COUNTS['C17:outside_quantifier'] == before
        sh.note('long_recording:%s' % ('in_quantifier' if inq else 'outside_quantifier'))
        sh.case_done(None, inq, key='long%d' % sh.shard, sample={'n': n, 'midpoints': mode, 'peaks': [int(v) for v in p[:3]], 'last': int(t[-1])})
    for k, v in attach.COUNTS.items():
        if k.startswith('C17:'):
            sh.classes[k[4:]] = v


_run_generated = run


def run(sh):      # noqa: F811 - thorough tier: the repository's own tests are one more workload for the same monitors
    _run_generated(sh)
    if sh.tier == 'thorough' and sh.shard == 0:
        from .. import repotests
        repotests.run(sh, PROP)


def replay(sh, driver, case):
    call(sh, case['n'], case['peaks'], case['troughs'], case['rises'], case['decays'], driver)
    sh.case_done(case, True)
