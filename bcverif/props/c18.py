"""C18 - table and signal windowing utilities are lossless selections."""
import copy

import numpy as np
import pandas as pd

from .. import attach, gen, monitors, poollog
from ..attach import count, violation
from ..runner import quiet

PROP = 'C18'
EPS = 1e-6      # a cycle boundary within EPS samples of a limit: either reading accepted


def snap_df(*a, **k):
    df = a[0] if a else k.get('df', k.get('df_features'))
    return df.copy(deep=True) if isinstance(df, pd.DataFrame) else None


def mon_limit_df(result, pre, *a, **k):
    if pre is None:
        return
    orig = attach.original('bycycle.utils.dataframes', 'limit_df')
    args = monitors.bind(orig, a, k)
    fs, start, stop, reset = args['fs'], args['start'], args['stop'], args['reset_indices']
    d_in = poollog.tables_equal(args['df'], pre) if isinstance(args.get('df'), pd.DataFrame) else None
    if d_in is not None or (isinstance(args.get('df'), pd.DataFrame) and list(args['df'].index) != list(pre.index)):
        # a selection that rewrites the table it selects from is not lossless: the caller's table (and every later window cut from
        # it) is no longer the analysis
        violation(PROP, 'limit_df:input-table-modified', 'limit_df changed the table it was given (start=%r stop=%r reset_indices=%r): %s'
                  % (start, stop, reset, d_in or 'row labels changed'))
        return
    center = monitors.centre_of(pre)
    if center is None:
        count('C18:limit_df_unreadable')
        return
    side = 'trough' if center == 'peak' else 'peak'
    count('C18:limit_df:%s:start=%s:stop=%s' % (center, 'None' if start is None else 'given', 'None' if stop is None else 'given'))
    L = pre['sample_last_' + side].to_numpy().astype(float)
    N = pre['sample_next_' + side].to_numpy().astype(float)
    lo = -np.inf if start is None else start * fs
    hi = np.inf if stop is None else stop * fs
    kept_idx = list(result.index)
    pre_idx = list(pre.index)
    pos = {ix: i for i, ix in enumerate(pre_idx)}
    if len(set(pre_idx)) != len(pre_idx):
        count('C18:limit_df_duplicate_index')
        return
    if any(ix not in pos for ix in kept_idx) or [pos[ix] for ix in kept_idx] != sorted(pos[ix] for ix in kept_idx) or \
            len(set(kept_idx)) != len(kept_idx):
        violation(PROP, 'limit_df:not-a-subset-in-order', 'result rows %s are not an ordered subset of the input rows' % kept_idx[:8])
        return
    kept = set(kept_idx)
    n_in = n_out = n_str = 0
    from fractions import Fraction
    # exact positions of the limits in samples (rational arithmetic): a coincidence that is exact in real numbers is
    # decided by the closed interval of the statement; one that only holds up to rounding (|d| <= EPS) is left open
    xlo = None if start is None else Fraction(start) * Fraction(fs)
    xhi = None if stop is None else Fraction(stop) * Fraction(fs)

    def near_not_exact(v, x):
        return x is not None and abs(v - float(x)) <= EPS and Fraction(v) != x

    def on_axis(v, lim):
        # the limit is literally the time of sample v on the float time axis (v / fs): the boundary coincides with the limit
        return lim is not None and float(v) / float(fs) == float(lim)
    flo = None if xlo is None else float(xlo)
    fhi = None if xhi is None else float(xhi)
    for i, ix in enumerate(pre_idx):
        far = (flo is None or (abs(L[i] - flo) > 1 and abs(N[i] - flo) > 1)) and (fhi is None or (abs(L[i] - fhi) > 1 and abs(N[i] - fhi) > 1))
        if far:
            # more than a sample away from both limits: floating-point comparison is exact enough, no rational arithmetic needed
            lo_on = hi_on = near = False
            inside = (flo is None or L[i] >= flo) and (fhi is None or N[i] <= fhi)
            outside = (flo is not None and N[i] < flo) or (fhi is not None and L[i] > fhi)
        else:
            lo_on, hi_on = on_axis(L[i], start), on_axis(N[i], stop)
            if lo_on or hi_on:
                count('C18:limit_df_boundary_coincidence_on_time_axis')
            near = (near_not_exact(L[i], xlo) and not lo_on) or (near_not_exact(N[i], xhi) and not hi_on) or \
                near_not_exact(N[i], xlo) or near_not_exact(L[i], xhi)
            inside = (xlo is None or lo_on or Fraction(L[i]) >= xlo) and (xhi is None or hi_on or Fraction(N[i]) <= xhi)
            outside = (xlo is not None and Fraction(N[i]) < xlo) or (xhi is not None and Fraction(L[i]) > xhi)
        if near:
            count('C18:limit_df_boundary_coincidence_up_to_rounding')
            continue
        if not far and ((xlo is not None and Fraction(L[i]) == xlo) or (xhi is not None and Fraction(N[i]) == xhi)):
            count('C18:limit_df_boundary_coincidence_exact')
        if inside:
            n_in += 1
            if ix not in kept:
                violation(PROP, 'limit_df:inside-cycle-dropped', 'cycle %s [%g, %g] lies inside [%s, %s] s (fs=%g) but was dropped'
                          % (ix, L[i], N[i], start, stop, fs))
                return
        elif outside:
            n_out += 1
            if ix in kept:
                violation(PROP, 'limit_df:outside-cycle-kept', 'cycle %s [%g, %g] lies outside [%s, %s] s (fs=%g) but was kept'
                          % (ix, L[i], N[i], start, stop, fs))
                return
        else:
            n_str += 1
    if n_in and n_str:
        count('C18:limit_df_window_cuts_and_keeps')
    if n_in == 0:
        count('C18:limit_df_window_without_cycle')
    if list(result.columns) != list(pre.columns):
        violation(PROP, 'limit_df:columns-changed', 'columns differ from the input')
        return
    sample_cols = [c for c in pre.columns if str(c).startswith('sample_')]
    offsets = set()
    for c in pre.columns:
        x = pre.loc[kept_idx, c].to_numpy()
        y = result[c].to_numpy()
        if c in sample_cols:
            d = np.unique(x.astype(float) - y.astype(float))
            if len(d) > 1:
                violation(PROP, 'limit_df:sample-column-not-shifted-uniformly', 'column %s shifted by %s' % (c, d[:4].tolist()))
                return
            offsets.update(d.tolist())
        else:
            same = np.array_equal(x, y, equal_nan=True) if x.dtype.kind == 'f' else np.array_equal(x, y)
            if not same:
                violation(PROP, 'limit_df:feature-value-changed', 'column %s changed' % c)
                return
    if len(offsets) > 1:
        violation(PROP, 'limit_df:sample-columns-shifted-by-different-offsets', 'offsets %s over columns %s' % (sorted(offsets), sample_cols))
        return
    if len(kept_idx):
        off = offsets.pop() if offsets else 0.0
        if not reset and off != 0:
            violation(PROP, 'limit_df:shifted-without-reset', 'reset_indices=False but sample columns shifted by %r' % off)
            return
        count('C18:limit_df_offset_%s' % ('zero' if off == 0 else 'nonzero'))


def mon_limit_signal(result, pre, *a, **k):
    orig = attach.original('bycycle.utils.timeseries', 'limit_signal')
    args = monitors.bind(orig, a, k)
    times, sig = np.asarray(args['times']), np.asarray(args['sig'])
    start, stop = args['start'], args['stop']
    keep = [i for i in range(len(times)) if (start is None or times[i] >= start) and (stop is None or times[i] < stop)]
    rs, rt = np.asarray(result[0]), np.asarray(result[1])
    count('C18:limit_signal:start=%s:stop=%s' % ('None' if start is None else 'given', 'None' if stop is None else 'given'))
    if len(rs) != len(keep) or len(rt) != len(keep) or not np.array_equal(rs, sig[keep]) or not np.array_equal(rt, times[keep]):
        violation(PROP, 'limit_signal:not-the-half-open-window', 'start=%r stop=%r: %d samples returned, %d samples have start <= t < stop'
                  % (start, stop, len(rs), len(keep)))


def mon_drop(result, pre, *a, **k):
    if pre is None:
        return
    keep = [c for c in pre.columns if not str(c).startswith('sample_')]
    count('C18:drop_samples_df')
    if list(result.columns) != keep:
        violation(PROP, 'drop_samples_df:columns', 'columns %s, expected %s' % (list(result.columns)[:6], keep[:6]))
        return
    if poollog.tables_equal(result.reset_index(drop=True), pre[keep].reset_index(drop=True)) is not None:
        violation(PROP, 'drop_samples_df:value-changed', 'a value changed')


def mon_split(result, pre, *a, **k):
    if pre is None:
        return
    feat, samp = result
    scols = [c for c in pre.columns if str(c).startswith('sample_')]
    fcols = [c for c in pre.columns if not str(c).startswith('sample_')]
    count('C18:split_samples_df')
    if sorted(map(str, samp.columns)) != sorted(map(str, scols)) or sorted(map(str, feat.columns)) != sorted(map(str, fcols)):
        violation(PROP, 'split_samples_df:column-partition', 'samples: %s, features: %s' % (list(samp.columns), list(feat.columns)[:6]))
        return
    for c in scols:
        if not np.array_equal(samp[c].to_numpy(), pre[c].to_numpy()):
            violation(PROP, 'split_samples_df:value-changed', 'column %s' % c)
            return
    for c in fcols:
        x, y = feat[c].to_numpy(), pre[c].to_numpy()
        if not (np.array_equal(x, y, equal_nan=True) if x.dtype.kind == 'f' else np.array_equal(x, y)):
            violation(PROP, 'split_samples_df:value-changed', 'column %s' % c)
            return


def setup(sh):
    A = attach.attach
    A('bycycle.utils.dataframes', 'limit_df', attach.ensure_with_snapshot('limit_df', snap_df, mon_limit_df))
    A('bycycle.utils.timeseries', 'limit_signal', attach.ensure_with_snapshot('limit_signal', lambda *a, **k: None, mon_limit_signal))
    A('bycycle.utils.dataframes', 'drop_samples_df', attach.ensure_with_snapshot('drop_samples_df', snap_df, mon_drop))
    A('bycycle.utils.dataframes', 'split_samples_df', attach.ensure_with_snapshot('split_samples_df', snap_df, mon_split))


def make_table(rng):
    from bycycle.features import compute_features
    fs, lo, hi = gen.gen_config(rng)
    if rng.random() < 0.4:
        fs = float(rng.choice([128., 1024., 256., 512.]))      # k / fs is exact: boundary coincidences are decidable
        if hi >= fs / 2:
            hi = fs / 2 - 1
    sig, fam = gen.gen_signal(rng, fs, lo, hi, rng.uniform(2.0, 6.0))
    center = str(rng.choice(['peak', 'trough']))
    method = str(rng.choice(['cycles', 'amp']))
    with quiet():
        df = compute_features(sig, fs, (lo, hi), center_extrema=center, burst_method=method,
                              threshold_kwargs={'min_n_cycles': 2} if method == 'cycles' else {'burst_fraction_threshold': .5})
    if rng.random() < 0.3 and len(df):
        # the table carries its own row labels (selected from / stored with a longer table)
        df.index = pd.RangeIndex(5, 5 + len(df)) if rng.random() < 0.5 else pd.Index(np.arange(len(df)) * 3 + 1)
        attach.count('C18:table_with_its_own_row_labels')
    if rng.random() < 0.2:
        df = df.drop(columns=[c for c in df.columns if c in ('is_burst', 'amp_fraction', 'amp_consistency', 'period_consistency',
                                                             'monotonicity', 'burst_fraction')])
    return df, sig, fs, center, fam


def run_limit(sh, case, driver='limit'):
    from bycycle.utils import limit_df, limit_signal
    df = case['df']
    fs, start, stop, reset = case['fs'], case['start'], case['stop'], case['reset_indices']
    vs = []
    try:
        with quiet():
            limit_df(df.copy(), fs, start=start, stop=stop, reset_indices=reset)
    except Exception as e:
        vs.append({'mechanism': 'limit_df:' + attach.exc_mechanism(e),
                   'message': 'limit_df raised %r for start=%r stop=%r on a %s-centred table' % (e, start, stop, monitors.centre_of(df))})
    n = case['n']
    times = np.arange(n) / fs
    sig = np.arange(n, dtype=float)
    try:
        with quiet():
            limit_signal(times, sig, start=start, stop=stop)
    except Exception as e:
        vs.append({'mechanism': 'limit_signal:' + attach.exc_mechanism(e), 'message': 'limit_signal raised %r for start=%r stop=%r' % (e, start, stop)})
    # event-locked time axis (negative times before the event) and limits that are exactly 0
    t0 = float(int(n // 3)) / fs
    times2 = times - t0
    # limits that are exactly the first / last time point of the axis (the upper bound is open, the lower one closed)
    for (a2, b2) in ((None, float(times[-1])), (float(times[0]), float(times[-1])), (float(times[-1]), None), (float(times[-1]), float(times[-1])),
                     (None, float(times[0])), (float(times[n // 2]), float(times[-1]))):
        try:
            with quiet():
                limit_signal(times, sig, start=a2, stop=b2)
            attach.count('C18:limit_signal_limit_on_an_end_of_the_axis')
        except Exception as e:
            vs.append({'mechanism': 'limit_signal:' + attach.exc_mechanism(e), 'message': 'limit_signal raised %r for start=%r stop=%r' % (e, a2, b2)})
    # a window that begins after the last sample (the next epoch of a recording that ended early): no sample has start <= t
    for (a2, b2) in ((n / fs, None), ((n + 5) / fs, None), (n / fs, (n + 9) / fs), (float(times[-1]) + 0.5 / fs, None)):
        try:
            with quiet():
                limit_signal(times, sig, start=a2, stop=b2)
            attach.count('C18:limit_signal_window_after_the_last_sample')
        except Exception as e:
            vs.append({'mechanism': 'limit_signal:' + attach.exc_mechanism(e), 'message': 'limit_signal raised %r for start=%r stop=%r' % (e, a2, b2)})
    for (a2, b2) in ((0, None), (0, 0.5 * (n / fs - t0)), (None, 0), (0.0, None), (None, 0.0), (0, 0)):
        try:
            with quiet():
                limit_signal(times2, sig, start=a2, stop=b2)
            attach.count('C18:limit_signal_zero_limit')
        except Exception as e:
            vs.append({'mechanism': 'limit_signal:' + attach.exc_mechanism(e), 'message': 'limit_signal raised %r for start=%r stop=%r' % (e, a2, b2)})
    vs += [v for v in attach.take_violations() if v['property'] in (PROP, '_monitor')]
    for v in vs:
        sh.violate(case, v, driver)


def run_boundaries(sh, df, fs, n, center, bounds, rng):
    """A window opened (closed) exactly on every cycle boundary of the table: start (stop) is the time of that sample on the
    float time axis, k / fs - for sampling rates that are not powers of two, fs * (k / fs) need not round back to k."""
    from bycycle.utils import limit_df
    for b in bounds:
        for which in ('start', 'stop'):
            t = float(b) / float(fs)
            case = {'df': df, 'fs': fs, 'start': t if which == 'start' else None, 'stop': t if which == 'stop' else None,
                    'reset_indices': bool(rng.random() < 0.5), 'n': n, 'window': 'every_boundary', 'center': center}
            vs = []
            try:
                with quiet():
                    limit_df(df.copy(), fs, start=case['start'], stop=case['stop'], reset_indices=case['reset_indices'])
            except Exception as e:
                vs.append({'mechanism': 'limit_df:' + attach.exc_mechanism(e),
                           'message': 'limit_df raised %r for start=%r stop=%r on a %s-centred table' % (e, case['start'], case['stop'], center)})
            vs += [v for v in attach.take_violations() if v['property'] in (PROP, '_monitor')]
            for v in vs:
                sh.violate(case, v, 'limit')
            sh.cases += 1
            if float(fs) * t != float(b):
                attach.count('C18:limit_df_boundary_where_fs_times_t_does_not_round_back')
    sh.note('window:every_boundary')


def run_cols(sh, case, driver='columns'):
    from bycycle.utils import split_samples_df, drop_samples_df, flatten_dfs
    df = case['df']
    vs = []
    try:
        with quiet():
            drop_samples_df(df.copy())
            split_samples_df(df.copy())
    except Exception as e:
        vs.append({'mechanism': 'columns:' + attach.exc_mechanism(e), 'message': 'split/drop raised %r' % (e,)})
    vs += [v for v in attach.take_violations() if v['property'] in (PROP, '_monitor')]
    for v in vs:
        sh.violate(case, v, driver)


def run_flatten(sh, case, driver='flatten'):
    """Label provenance: every output row is matched to the table and row it came from."""
    from bycycle.utils import flatten_dfs
    tabs, labels, two_d = case['tables'], case['labels'], case['two_d']
    vs = []
    # provenance marker: a column that identifies (table, row)
    marked = []
    uid = 0
    flat_expected = []
    nested = tabs if two_d else [tabs]
    flat_labels = [l for row in labels for l in row] if two_d else list(labels)
    li = 0
    out_nested = []
    for row in nested:
        out_row = []
        for t in row:
            t = t.copy()
            if case.get('stale_column') and li % 2 == 0:
                # the table already carries a column of that name (it came out of an earlier grouping): this call's label replaces it
                t[case.get('column_name', 'Label')] = 'stale'
                attach.count('C18:flatten_table_that_already_has_the_label_column')
            t['__uid'] = np.arange(uid, uid + len(t))
            for u in range(uid, uid + len(t)):
                flat_expected.append((u, flat_labels[li]))
            uid += len(t)
            li += 1
            out_row.append(t)
        out_nested.append(out_row)
    arg = out_nested if two_d else out_nested[0]
    la = case.get('labels_as')
    if la == 'list':
        lab_arg = labels
    elif la == 'array_T' and two_d:
        lab_arg = np.ascontiguousarray(np.array(labels).T).T          # same labels, a transposed (non C-contiguous) view
        attach.count('C18:flatten_labels_as_transposed_view')
    elif la == 'array_F' and two_d:
        lab_arg = np.asfortranarray(np.array(labels))
        attach.count('C18:flatten_labels_as_transposed_view')
    else:
        lab_arg = np.array(labels)
    name = case.get('column_name', 'Label')
    try:
        with quiet():
            res = flatten_dfs(arg, lab_arg, column_name=name) if name != 'Label' else flatten_dfs(arg, lab_arg)
    except Exception as e:
        res = None
        vs.append({'mechanism': 'flatten_dfs:' + attach.exc_mechanism(e), 'message': 'flatten_dfs raised %r' % (e,)})
    attach.count('eval:flatten_dfs')
    if res is not None:
        got = list(zip(res['__uid'].to_numpy().tolist(), res[name].to_numpy().tolist())) if name in res.columns and len(res) else []
        exp = [(u, l) for u, l in flat_expected]
        if name not in res.columns and len(flat_expected):
            vs.append({'mechanism': 'flatten_dfs:label-column-missing', 'message': 'column %s missing' % name})
        elif [g[0] for g in got] != [e_[0] for e_ in exp]:
            vs.append({'mechanism': 'flatten_dfs:order-or-rows', 'message': 'row provenance %s..., expected %s...' % (got[:5], exp[:5])})
        elif [str(g[1]) for g in got] != [str(e_[1]) for e_ in exp]:
            i = [str(g[1]) == str(e_[1]) for g, e_ in zip(got, exp)].index(False)
            vs.append({'mechanism': 'flatten_dfs:row-carries-other-tables-label', 'message': 'row %d (from uid %d): label %r, expected %r'
                                                                                               % (i, got[i][0], got[i][1], exp[i][1])})
        else:
            # values unchanged
            src = pd.concat([t for row in out_nested for t in row], axis=0)
            for c in src.columns:
                if c == name:
                    continue
                x, y = src[c].to_numpy(), res[c].to_numpy()
                if not (np.array_equal(x, y, equal_nan=True) if x.dtype.kind == 'f' else np.array_equal(x, y)):
                    vs.append({'mechanism': 'flatten_dfs:value-changed', 'message': 'column %s' % c})
                    break
    if res is not None and not vs and not two_d and len(flat_labels) >= 2:
        # the same table objects grouped again under OTHER labels (the first call may have left a label column in them): every
        # row must carry the label given in THIS call
        relab = ['again_%s' % l for l in flat_labels[::-1]]
        try:
            with quiet():
                res2 = flatten_dfs(arg, relab if case.get('labels_as') == 'list' else np.array(relab), column_name=name) if name != 'Label' \
                    else flatten_dfs(arg, relab if case.get('labels_as') == 'list' else np.array(relab))
            attach.count('C18:flatten_second_call_on_the_same_tables')
            exp2 = []
            for t, l in zip(arg, relab):
                exp2 += [(int(u), l) for u in t['__uid'].to_numpy().tolist()]
            got2 = list(zip(res2['__uid'].to_numpy().tolist(), res2[name].to_numpy().tolist())) if len(res2) else []
            if [g[0] for g in got2] != [e_[0] for e_ in exp2]:
                vs.append({'mechanism': 'flatten_dfs:order-or-rows', 'message': 'second call on the same tables: row provenance differs'})
            elif [str(g[1]) for g in got2] != [str(e_[1]) for e_ in exp2]:
                i = [str(g[1]) == str(e_[1]) for g, e_ in zip(got2, exp2)].index(False)
                vs.append({'mechanism': 'flatten_dfs:stale-label-on-second-call',
                           'message': 'second call on the same tables: row %d carries %r, the label given in this call is %r' % (i, got2[i][1], exp2[i][1])})
        except Exception as e:
            vs.append({'mechanism': 'flatten_dfs:' + attach.exc_mechanism(e), 'message': 'second flatten_dfs call on the same tables raised %r' % (e,)})
    if res is not None and not vs and not two_d and len(flat_labels) >= 2 and len(arg[0]):
        # one table OBJECT listed at two positions under different labels (the same recording under two condition names): every row of the
        # result carries the label of the position it came from
        lst, labs = [arg[0], arg[1], arg[0]], ['first', 'other', 'again']
        try:
            with quiet():
                res3 = flatten_dfs(lst, labs if case.get('labels_as') == 'list' else np.array(labs))
            attach.count('C18:flatten_one_table_object_at_two_positions')
            exp3 = []
            for t, l in zip(lst, labs):
                exp3 += [(int(u), l) for u in t['__uid'].to_numpy().tolist()]
            got3 = list(zip(res3['__uid'].to_numpy().tolist(), res3['Label'].to_numpy().tolist())) if len(res3) else []
            if [g[0] for g in got3] != [e_[0] for e_ in exp3]:
                vs.append({'mechanism': 'flatten_dfs:order-or-rows', 'message': 'list with one table object at two positions: row provenance differs'})
            elif [str(g[1]) for g in got3] != [str(e_[1]) for e_ in exp3]:
                i = [str(g[1]) == str(e_[1]) for g, e_ in zip(got3, exp3)].index(False)
                vs.append({'mechanism': 'flatten_dfs:label-of-another-position',
                           'message': 'list [a, b, a] with labels %s: row %d carries %r, its position is labelled %r' % (labs, i, got3[i][1], exp3[i][1])})
        except Exception as e:
            vs.append({'mechanism': 'flatten_dfs:' + attach.exc_mechanism(e), 'message': 'flatten_dfs([a, b, a], ...) raised %r' % (e,)})
    for v in vs:
        sh.violate({k: case[k] for k in case if k != 'tables'} | {'n_tables': len(flat_labels)}, v, driver)


def run(sh):
    from bycycle.utils import epoch_df
    rng = gen.rng_for(sh.seed, PROP, sh.shard)
    K = 12 if sh.tier == 'quick' else 220
    for it in range(K):
        try:
            df, sig, fs, center, fam = make_table(rng)
        except Exception:
            sh.note('table_raised')
            continue
        if len(df) < 3:
            continue
        side = 'trough' if center == 'peak' else 'peak'
        n = len(sig)
        dur = n / fs
        bounds = np.unique(np.concatenate([df['sample_last_' + side].to_numpy(), df['sample_next_' + side].to_numpy()]))
        for rep in range(6):
            kind = ['random', 'on_boundary', 'none_start', 'none_stop', 'none_both', 'empty_window'][rep]
            a, b = sorted(rng.uniform(0, dur, 2))
            if kind == 'on_boundary':
                i, j = sorted(rng.choice(len(bounds), 2, replace=False))
                a, b = bounds[i] / fs, bounds[j] / fs
            elif kind == 'none_start':
                a = None
            elif kind == 'none_stop':
                b = None
            elif kind == 'none_both':
                a, b = None, None
            elif kind == 'empty_window':
                i = int(rng.integers(0, len(bounds) - 1))
                a = (bounds[i] + 1) / fs
                b = (bounds[i + 1] - 1) / fs
                if b <= a:
                    a, b = bounds[i] / fs, (bounds[i] + 0.5) / fs
            case = {'df': df, 'fs': fs, 'start': None if a is None else float(a), 'stop': None if b is None else float(b),
                    'reset_indices': bool(rng.random() < 0.6), 'n': n, 'window': kind, 'center': center}
            before = attach.COUNTS['C18:limit_df_window_cuts_and_keeps']
            run_limit(sh, case)
            sh.note('window:' + kind)
            sh.case_done(case, attach.COUNTS['C18:limit_df_window_cuts_and_keeps'] > before,
                         sample={'rows': len(df), 'center': center, 'fs': fs, 'start': case['start'], 'stop': case['stop'],
                                 'reset_indices': case['reset_indices'], 'window': kind})
        run_boundaries(sh, df, fs, n, center, bounds, rng)
        c2 = {'df': df, 'center': center}
        run_cols(sh, c2)
        sh.case_done(c2, True, sample={'rows': len(df), 'center': center, 'op': 'split/drop'})
        # flatten: 1-D and 2-D lists of tables (epochs of the table) with list / array labels
        with quiet():
            E = max(4, n // int(rng.integers(2, 7)))
            tabs = epoch_df(df.copy(), n, E)
        for tb in tabs[1:3]:
            if len(tb):          # epoch tables carry negative (relative) sample indices
                run_cols(sh, {'df': tb, 'center': center})
                sh.note('split_drop_on_epoch_table')
        two_d = bool(rng.random() < 0.5) and len(tabs) >= 4
        if two_d:
            m = len(tabs) // 2
            tabs2 = [tabs[:m], tabs[m:2 * m]]
            labels = [['r0c%d' % j for j in range(m)], ['r1c%d' % j for j in range(m)]]
            if rng.random() < 0.3:
                labels = [['chan0'] * m, ['chan1'] * m]          # one label for every epoch of a channel
                sh.note('flatten:repeated_labels')
            c3 = {'tables': tabs2, 'labels': labels, 'two_d': True, 'labels_as': str(rng.choice(['list', 'array', 'array_T', 'array_F'])),
                  'column_name': str(rng.choice(['Label', 'Epoch', 'channel']))}
        else:
            r_ = rng.random()
            if r_ < 0.45:
                labels = ['ep%d' % j for j in range(len(tabs))]
            elif r_ < 0.7:
                labels = list(range(len(tabs)))
            else:
                # condition names: the same label for several tables
                labels = [['rest', 'task', 'cue'][j % int(rng.integers(2, 4))] for j in range(len(tabs))]
                sh.note('flatten:repeated_labels')
            c3 = {'tables': tabs, 'labels': labels, 'two_d': False, 'labels_as': str(rng.choice(['list', 'array'])),
                  'column_name': 'Label' if rng.random() < 0.6 else 'Epoch'}
        c3['stale_column'] = bool(rng.random() < 0.35)
        run_flatten(sh, c3)
        sh.note('flatten:%s' % ('2d' if two_d else '1d'))
        if c3.get('column_name', 'Label') != 'Label':
            sh.note('flatten:%s_own_column_name' % ('2d' if two_d else '1d'))
        sh.case_done(None, True, key='f%d:%d' % (sh.shard, it), sample={'op': 'flatten_dfs', 'two_d': two_d, 'labels': labels if not two_d else labels[0]})
    for k, v in attach.COUNTS.items():
        if k.startswith('C18:'):
            sh.classes[k[4:]] = v


_run_generated = run


def run(sh):      # noqa: F811 - thorough tier: the repository's own tests are one more workload for the same monitors
    _run_generated(sh)
    if sh.tier == 'thorough' and sh.shard == 0:
        from .. import repotests
        repotests.run(sh, PROP)


def replay(sh, driver, case):
    if driver == 'limit':
        run_limit(sh, case, driver)
    elif driver == 'columns':
        run_cols(sh, case, driver)
    sh.case_done(case, True)
