"""C19 - invalid settings are rejected, never silently analysed."""
import copy
import itertools

import numpy as np
import pandas as pd

from .. import attach, gen
from ..runner import quiet, guarded

PROP = 'C19'
FS, FR, NS = 100., (8., 12.), 160
AXES = [0, 1, (0, 1), None, 2, -1, 'x', [0, 1]]


def setup(sh):
    # call-count monitor: the group entry points really route through check_kwargs_shape
    def make(orig):
        def w(*a, **k):
            attach.count('eval:check_kwargs_shape')
            return orig(*a, **k)
        return w
    attach.attach('bycycle.group.utils', 'check_kwargs_shape', make)


def tiny(shape, seed=0):
    rng = np.random.default_rng(seed)
    t = np.arange(NS) / FS
    n = int(np.prod(shape)) if shape else 1
    rows = [np.sin(2 * np.pi * (9 + 0.3 * i) * t + i) + 0.05 * rng.standard_normal(NS) for i in range(n)]
    return np.array(rows).reshape(tuple(shape) + (NS,)) if shape else rows[0]


def kw_of(kind):
    """Option structures: None, 'dict', ('1d', n), ('2d', a, b), '3d'."""
    d = {'center_extrema': 'peak'}
    if kind is None:
        return None
    if kind == 'dict':
        return dict(d)
    if kind[0] == '1d':
        return [dict(d) for _ in range(kind[1])]
    if kind[0] == '2d':
        return [[dict(d) for _ in range(kind[2])] for _ in range(kind[1])]
    return [[[dict(d)] * 2] * 2] * 2


KW_KINDS = [None, 'dict'] + [('1d', n) for n in (1, 2, 3)] + [('2d', a, b) for a in (1, 2, 3) for b in (1, 2, 3)] + [('3d',)]


def decide(shape, axis, kind):
    """Decision table written from the docstrings: 'accept' | 'reject' | 'either'."""
    if len(shape) == 1:          # 2-D array (n0, samples)
        if axis not in (0, None) or isinstance(axis, bool):
            return 'reject'
        if kind is None or kind == 'dict':
            return 'accept'
        if kind[0] == '1d':
            return 'accept' if kind[1] == shape[0] else 'reject'
        return 'reject'
    n0, n1 = shape
    if isinstance(axis, list) or axis not in (0, 1, (0, 1)):
        return 'reject'
    if kind is None or kind == 'dict':
        return 'accept'
    if kind[0] == '3d':
        return 'reject'
    if axis == (0, 1):
        return 'accept' if kind == ('2d', n0, n1) else 'reject'
    n = n0 if axis == 0 else n1
    if kind[0] == '1d':
        return 'accept' if kind[1] == n else 'reject'
    if kind == ('2d', n0, n1):
        return 'either'          # reject, or pair position-wise (mis-pairing is C12's violation)
    return 'reject'


def outcome(fn):
    try:
        with quiet():
            fn()
        return 'returned', None
    except ValueError as e:
        return 'ValueError', e
    except Exception as e:
        return type(e).__name__, e


def judge(sh, name, expect, fn, case):
    got, e = outcome(fn)
    attach.count('eval:decision_table_probe')
    sh.note('%s:%s' % (expect, 'accepted' if got == 'returned' else 'rejected' if got == 'ValueError' else 'other'))
    v = None
    if expect == 'reject' and got == 'returned':
        v = {'mechanism': 'invalid-accepted:' + name.split('|')[0], 'message': '%s produced a result instead of ValueError' % name}
    elif expect == 'reject' and got != 'ValueError':
        v = {'mechanism': 'invalid-raised-%s:%s' % (got, name.split('|')[0]),
             'message': '%s raised %s(%s) where ValueError is documented' % (name, got, e)}
    elif expect == 'accept' and got != 'returned':
        v = {'mechanism': 'valid-rejected:' + name.split('|')[0], 'message': '%s (documented valid) raised %s(%s)' % (name, got, e)}
    if v is not None:
        sh.violate(case, v, 'probe')
    return got


def grid(sh):
    from bycycle.group import compute_features_2d, compute_features_3d
    from bycycle.group.utils import check_kwargs_shape
    shapes = [(a,) for a in (1, 2, 3)] + [(a, b) for a in (1, 2, 3) for b in (1, 2, 3)]
    cells = list(itertools.product(shapes, range(len(AXES)), range(len(KW_KINDS))))
    n = 0
    for ci, (shape, ai, ki) in enumerate(cells):
        if ci % sh.nshards != sh.shard:
            continue
        axis, kind = AXES[ai], KW_KINDS[ki]
        exp = decide(shape, axis, kind)
        sigs = tiny(shape, seed=ci)
        kw = kw_of(kind)
        case = {'cell': 'grid', 'shape': list(shape), 'axis': axis, 'kwargs_kind': kind, 'expected': exp}
        fn = compute_features_2d if len(shape) == 1 else compute_features_3d
        name = 'grid-%s|sigs%s axis=%r kwargs=%s' % ('2d' if len(shape) == 1 else '3d', shape, axis, kind)
        guarded(sh, judge, sh, name, exp, lambda: fn(np.array(sigs, copy=True), FS, FR, compute_features_kwargs=copy.deepcopy(kw),
                                                     axis=axis, n_jobs=1), case)
        if kind is not None and kind != 'dict':
            # the checker itself (list cells are decided there)
            judge(sh, 'checker-%s|sigs%s axis=%r kwargs=%s' % ('2d' if len(shape) == 1 else '3d', shape, axis, kind), exp,
                  lambda: check_kwargs_shape(sigs, np.array(kw), axis), case)
        sh.nontrivial.add('cell:%d' % ci)
        n += 1
    sh.cases += n
    sh.exhaustive['shapes(2d:1-3,3d:1-3x1-3)_x_axis%d_x_kwargs%d' % (len(AXES), len(KW_KINDS))] = {'cells': n}
    sh.samples.append({'sigs_shape': [2, 3, NS], 'axis': [0, 1], 'kwargs': '2-D list (2,3)', 'expected': 'accept'})


def features_table(center='peak', method='cycles'):
    from bycycle.features import compute_features
    with quiet():
        return compute_features(tiny(None), FS, FR, center_extrema=center, burst_method=method,
                                threshold_kwargs={'min_n_cycles': 2} if method == 'cycles' else {'burst_fraction_threshold': .5})


def params(sh):
    from bycycle import Bycycle, BycycleGroup
    from bycycle.features import (compute_features, compute_shape_features, compute_cyclepoints, compute_burst_features)
    from bycycle.features.shape import compute_band_amp
    from bycycle.features.burst import (compute_amp_consistency, compute_period_consistency, compute_burst_fraction)
    from bycycle.cyclepoints import find_extrema
    from bycycle.burst import detect_bursts_cycles, detect_bursts_amp, recompute_edges
    from bycycle.burst.utils import check_min_burst_cycles, recompute_edge
    from bycycle.group import compute_features_2d, compute_features_3d
    from bycycle.group.utils import progress_bar
    from bycycle.utils import limit_df
    from bycycle.plts import (plot_burst_detect_summary, plot_burst_detect_param, plot_cyclepoints_df,
                              plot_cyclepoints_array)
    import matplotlib.pyplot as plt
    sig = tiny(None)
    s2, s3 = tiny((2,)), tiny((2, 2))
    df = features_table()
    dfa = features_table(method='amp')
    shapes = compute_shape_features(sig, FS, FR)
    P = []          # (name, expected, callable)
    eps = 1e-9
    # sampling rate
    for fs in (-1., -eps):
        P += [('fs|compute_features fs=%g' % fs, 'reject', lambda fs=fs: compute_features(sig, fs, FR)),
              ('fs|compute_shape_features fs=%g' % fs, 'reject', lambda fs=fs: compute_shape_features(sig, fs, FR)),
              ('fs|compute_cyclepoints fs=%g' % fs, 'reject', lambda fs=fs: compute_cyclepoints(sig, fs, FR)),
              ('fs|find_extrema fs=%g' % fs, 'reject', lambda fs=fs: find_extrema(sig, fs, FR)),
              ('fs|compute_burst_fraction fs=%g' % fs, 'reject', lambda fs=fs: compute_burst_fraction(shapes, sig, fs, FR)),
              ('fs|limit_df fs=%g' % fs, 'reject', lambda fs=fs: limit_df(df.copy(), fs, 0, 1)),
              ('fs|Bycycle.fit fs=%g' % fs, 'reject', lambda fs=fs: Bycycle().fit(sig, fs, FR)),
              ('fs|compute_features_2d fs=%g' % fs, 'reject', lambda fs=fs: compute_features_2d(s2, fs, FR, n_jobs=1)),
              ('fs|plot_cyclepoints_df fs=%g' % fs, 'reject', lambda fs=fs: plot_cyclepoints_df(df, sig, fs)),
              ('fs|plot_cyclepoints_array fs=%g' % fs, 'reject', lambda fs=fs: plot_cyclepoints_array(sig, fs, peaks=np.array([5]))),
              ('fs|plot_burst_detect_summary fs=%g' % fs, 'reject',
               lambda fs=fs: plot_burst_detect_summary(df, sig, fs, {'monotonicity_threshold': .5})),
              ('fs|plot_burst_detect_param fs=%g' % fs, 'reject',
               lambda fs=fs: plot_burst_detect_param(df, sig, fs, 'monotonicity', .5))]
    P += [('fs|compute_features fs=0', 'reject', lambda: compute_features(sig, 0, FR)),
          ('fs-valid|compute_features fs=%g' % FS, 'accept', lambda: compute_features(sig, FS, FR))]
    # thresholds of the consistency method
    for key in ('amp_fraction_threshold', 'amp_consistency_threshold', 'period_consistency_threshold', 'monotonicity_threshold'):
        for val, exp in ((-eps, 'reject'), (-1., 'reject'), (1 + 1e-9, 'reject'), (2., 'reject'), (0., 'accept'), (1., 'accept'),
                         (eps, 'accept'), (1 - eps, 'accept')):
            P += [('thr|detect_bursts_cycles %s=%r' % (key, val), exp,
                   lambda key=key, val=val: detect_bursts_cycles(df.copy(), **{key: val})),
                  ('thr|compute_features %s=%r' % (key, val), exp,
                   lambda key=key, val=val: compute_features(sig, FS, FR, threshold_kwargs={key: val})),
                  ('thr|Bycycle.fit %s=%r' % (key, val), exp,
                   lambda key=key, val=val: Bycycle(thresholds={key: val}).fit(sig, FS, FR)),
                  ('thr|recompute_edges %s=%r' % (key, val), exp,
                   lambda key=key, val=val: recompute_edges(df.copy(), {key: val}))]
    for val, exp in ((-eps, 'reject'), (1 + 1e-9, 'reject'), (0., 'accept'), (1., 'accept'), (.5, 'accept')):
        P += [('thr|detect_bursts_amp burst_fraction_threshold=%r' % val, exp,
               lambda val=val: detect_bursts_amp(dfa.copy(), burst_fraction_threshold=val)),
              ('thr|compute_features(amp) burst_fraction_threshold=%r' % val, exp,
               lambda val=val: compute_features(sig, FS, FR, burst_method='amp', threshold_kwargs={'burst_fraction_threshold': val}))]
    # invalid thresholds must also surface through the group entry points (raised inside pool workers) and the group object
    for val, exp in ((-0.5, 'reject'), (1.5, 'reject'), (0.5, 'accept')):
        kw = {'threshold_kwargs': {'amp_consistency_threshold': val}}
        P += [('thr|compute_features_2d axis=0 amp_consistency_threshold=%r' % val, exp,
               lambda kw=kw: compute_features_2d(s2, FS, FR, compute_features_kwargs=copy.deepcopy(kw), n_jobs=2)),
              ('thr|compute_features_2d axis=None amp_consistency_threshold=%r' % val, exp,
               lambda kw=kw: compute_features_2d(s2, FS, FR, compute_features_kwargs=copy.deepcopy(kw), axis=None, n_jobs=1)),
              ('thr|compute_features_2d per-row list amp_consistency_threshold=%r' % val, exp,
               lambda kw=kw: compute_features_2d(s2, FS, FR, compute_features_kwargs=[{}, copy.deepcopy(kw)], n_jobs=2)),
              ('thr|compute_features_3d axis=(0,1) amp_consistency_threshold=%r' % val, exp,
               lambda kw=kw: compute_features_3d(s3, FS, FR, compute_features_kwargs=copy.deepcopy(kw), axis=(0, 1), n_jobs=2)),
              ('thr|compute_features_3d axis=1 amp_consistency_threshold=%r' % val, exp,
               lambda kw=kw: compute_features_3d(s3, FS, FR, compute_features_kwargs=copy.deepcopy(kw), axis=1, n_jobs=1)),
              ('thr|BycycleGroup.fit amp_consistency_threshold=%r' % val, exp,
               lambda val=val: BycycleGroup(thresholds={'amp_consistency_threshold': val}).fit(s2, FS, FR, n_jobs=1))]
    for val in ('middle', None):
        P += [('center_extrema|compute_features_2d %r' % (val,), 'reject',
               lambda val=val: compute_features_2d(s2, FS, FR, compute_features_kwargs={'center_extrema': val}, n_jobs=1)),
              ('center_extrema|BycycleGroup.fit %r' % (val,), 'reject', lambda val=val: BycycleGroup(center_extrema=val).fit(s2, FS, FR, n_jobs=1))]
    P += [('burst_method|compute_features_2d', 'reject',
           lambda: compute_features_2d(s2, FS, FR, compute_features_kwargs={'burst_method': 'consistency'}, n_jobs=1)),
          ('fs|compute_features_3d fs=-1', 'reject', lambda: compute_features_3d(s3, -1., FR, n_jobs=1)),
          ('fs|BycycleGroup.fit fs=-1', 'reject', lambda: BycycleGroup().fit(s2, -1., FR, n_jobs=1))]
    # min_n_cycles
    for val, exp in ((-1, 'reject'), (-eps, 'reject'), (0, 'accept'), (1, 'accept')):
        P += [('min_n_cycles|check_min_burst_cycles %r' % val, exp,
               lambda val=val: check_min_burst_cycles(np.array([True, False, True, True]), min_n_cycles=val)),
              ('min_n_cycles|detect_bursts_cycles %r' % val, exp, lambda val=val: detect_bursts_cycles(df.copy(), min_n_cycles=val)),
              ('min_n_cycles|detect_bursts_amp %r' % val, exp, lambda val=val: detect_bursts_amp(dfa.copy(), min_n_cycles=val)),
              ('min_n_cycles|compute_features(cycles) %r' % val, exp,
               lambda val=val: compute_features(sig, FS, FR, threshold_kwargs={'min_n_cycles': val}))]
    for val, exp in ((-1, 'reject'), (-3, 'reject'), (2, 'accept')):
        P += [('min_n_cycles|compute_features(amp) thresholds %r' % val, exp,
               lambda val=val: compute_features(sig, FS, FR, burst_method='amp', threshold_kwargs={'burst_fraction_threshold': .5, 'min_n_cycles': val})),
              ('min_n_cycles|compute_features(amp) burst_kwargs %r' % val, exp,
               lambda val=val: compute_features(sig, FS, FR, burst_method='amp', burst_kwargs={'min_n_cycles': val},
                                                threshold_kwargs={'burst_fraction_threshold': .5})),
              ('min_n_cycles|Bycycle.fit(amp) thresholds %r' % val, exp,
               lambda val=val: Bycycle(burst_method='amp', thresholds={'burst_fraction_threshold': .5, 'min_n_cycles': val}).fit(sig, FS, FR)),
              ('min_n_cycles|Bycycle.fit(cycles) thresholds %r' % val, exp,
               lambda val=val: Bycycle(thresholds={'min_n_cycles': val}).fit(sig, FS, FR)),
              ('min_n_cycles|BycycleGroup.fit(amp) thresholds %r' % val, exp,
               lambda val=val: BycycleGroup(burst_method='amp', thresholds={'burst_fraction_threshold': .5, 'min_n_cycles': val}).fit(s2, FS, FR, n_jobs=1)),
              ('min_n_cycles|compute_features_2d(cycles) thresholds %r' % val, exp,
               lambda val=val: compute_features_2d(s2, FS, FR, compute_features_kwargs={'threshold_kwargs': {'min_n_cycles': val}}, n_jobs=1))]
    # the same limits on a SECOND use of the caller's objects: a Bycycle object that was fitted with valid settings and is re-fitted after
    # its settings were edited; option dicts (also empty ones) that the caller keeps and passes again
    def refit(method, first, key, val):
        bm = Bycycle(burst_method=method, thresholds=dict(first))
        bm.fit(sig, FS, FR)
        bm.thresholds = dict(first, **{key: val})
        bm.fit(sig, FS, FR)
        return bm.df_features

    def recall(method, first, key, val, bk):
        compute_features(sig, FS, FR, burst_method=method, burst_kwargs=bk, threshold_kwargs=dict(first))
        return compute_features(sig, FS, FR, burst_method=method, burst_kwargs=bk, threshold_kwargs=dict(first, **{key: val}))
    for method, first, key, bad, good in (('amp', {'burst_fraction_threshold': .5, 'min_n_cycles': 3}, 'min_n_cycles', -2, 2),
                                          ('amp', {'burst_fraction_threshold': .5}, 'min_n_cycles', -1, 4),
                                          ('amp', {'burst_fraction_threshold': .5, 'min_n_cycles': 3}, 'burst_fraction_threshold', 1.5, 1),
                                          ('cycles', {'min_n_cycles': 3}, 'min_n_cycles', -2, 2),
                                          ('cycles', {'monotonicity_threshold': .6}, 'monotonicity_threshold', 1.5, .9)):
        P += [('second-use|Bycycle refit(%s) %s=%r' % (method, key, bad), 'reject', lambda a=(method, first, key, bad): refit(*a)),
              ('second-use-valid|Bycycle refit(%s) %s=%r' % (method, key, good), 'accept', lambda a=(method, first, key, good): refit(*a))]
        for bk in ({}, None):
            P += [('second-use|compute_features(%s) kept burst_kwargs %r, %s=%r' % (method, bk, key, bad), 'reject',
                   lambda a=(method, first, key, bad), bk=bk: recall(*a, dict(bk) if bk is not None else None)),
                  ('second-use-valid|compute_features(%s) kept burst_kwargs %r, %s=%r' % (method, bk, key, good), 'accept',
                   lambda a=(method, first, key, good), bk=bk: recall(*a, dict(bk) if bk is not None else None))]
    # amplitude thresholds of the dual-threshold detector
    for val, exp in (((2, 1), 'reject'), ((3., .5), 'reject'), ((1, 2), 'accept'), ((.5, 3), 'accept'), ((1, 1), 'either')):
        P += [('amp_threshes|compute_burst_fraction %r' % (val,), exp,
               lambda val=val: compute_burst_fraction(shapes, sig, FS, FR, amp_threshes=val)),
              ('amp_threshes|compute_features(amp) %r' % (val,), exp,
               lambda val=val: compute_features(sig, FS, FR, burst_method='amp', burst_kwargs={'amp_threshes': val},
                                                threshold_kwargs={'burst_fraction_threshold': .5}))]
    # the same limits when the setting arrives as a numpy scalar / array (values taken from a parameter sweep array, np.arange, ...)
    npv = [(np.float32(1.5), 'reject'), (np.float16(-0.5), 'reject'), (np.float64(1.5), 'reject'), (np.int64(2), 'reject'),
           (np.int32(-1), 'reject'), (np.float32(0.5), 'accept'), (np.float16(0.25), 'accept'), (np.int64(1), 'accept'), (np.int32(0), 'accept')]
    for key in ('amp_consistency_threshold', 'monotonicity_threshold'):
        for val, exp in npv:
            tag = '%s(%s)' % (type(val).__name__, val)
            P += [('thr-numpy|detect_bursts_cycles %s=%s' % (key, tag), exp,
                   lambda key=key, val=val: detect_bursts_cycles(df.copy(), **{key: val})),
                  ('thr-numpy|compute_features %s=%s' % (key, tag), exp,
                   lambda key=key, val=val: compute_features(sig, FS, FR, threshold_kwargs={key: val})),
                  ('thr-numpy|Bycycle.fit %s=%s' % (key, tag), exp,
                   lambda key=key, val=val: Bycycle(thresholds={key: val}).fit(sig, FS, FR))]
    for val, exp in npv:
        tag = '%s(%s)' % (type(val).__name__, val)
        P += [('thr-numpy|detect_bursts_amp burst_fraction_threshold=%s' % tag, exp,
               lambda val=val: detect_bursts_amp(dfa.copy(), burst_fraction_threshold=val)),
              ('thr-numpy|compute_features(amp) burst_fraction_threshold=%s' % tag, exp,
               lambda val=val: compute_features(sig, FS, FR, burst_method='amp', threshold_kwargs={'burst_fraction_threshold': val}))]
    for val, exp in ((np.int64(-1), 'reject'), (np.int32(-2), 'reject'), (np.float32(-1), 'reject'), (np.int16(-1), 'reject'),
                     (np.int64(2), 'accept'), (np.int32(0), 'accept'), (np.float32(2), 'accept')):
        tag = '%s(%s)' % (type(val).__name__, val)
        P += [('min_n_cycles-numpy|check_min_burst_cycles %s' % tag, exp,
               lambda val=val: check_min_burst_cycles(np.array([True, False, True, True]), min_n_cycles=val)),
              ('min_n_cycles-numpy|detect_bursts_cycles %s' % tag, exp, lambda val=val: detect_bursts_cycles(df.copy(), min_n_cycles=val)),
              ('min_n_cycles-numpy|detect_bursts_amp %s' % tag, exp, lambda val=val: detect_bursts_amp(dfa.copy(), min_n_cycles=val)),
              ('min_n_cycles-numpy|compute_features(cycles) %s' % tag, exp,
               lambda val=val: compute_features(sig, FS, FR, threshold_kwargs={'min_n_cycles': val})),
              ('min_n_cycles-numpy|compute_features(amp) burst_kwargs %s' % tag, exp,
               lambda val=val: compute_features(sig, FS, FR, burst_method='amp', burst_kwargs={'min_n_cycles': val},
                                                threshold_kwargs={'burst_fraction_threshold': .5})),
              ('min_n_cycles-numpy|BycycleGroup.fit(cycles) %s' % tag, exp,
               lambda val=val: BycycleGroup(thresholds={'min_n_cycles': val}).fit(s2, FS, FR, n_jobs=1))]
    for val, exp in ((np.array([2, 1]), 'reject'), (np.array([3., .5], dtype=np.float32), 'reject'), ([2, 1], 'reject'),
                     (np.array([1, 2]), 'accept'), (np.array([.5, 3.], dtype=np.float32), 'accept'), ([1, 2], 'accept')):
        tag = '%s%s' % (type(val).__name__, list(np.asarray(val).tolist()))
        P += [('amp_threshes-numpy|compute_burst_fraction %s' % tag, exp,
               lambda val=val: compute_burst_fraction(shapes, sig, FS, FR, amp_threshes=val)),
              ('amp_threshes-numpy|compute_features(amp) %s' % tag, exp,
               lambda val=val: compute_features(sig, FS, FR, burst_method='amp', burst_kwargs={'amp_threshes': val},
                                                threshold_kwargs={'burst_fraction_threshold': .5}))]
    for val, exp in ((np.float32(-1), 'reject'), (np.int64(-1), 'reject'), (np.int32(-100), 'reject'), (np.int64(100), 'accept'), (np.float64(100), 'accept')):
        tag = '%s(%s)' % (type(val).__name__, val)
        P += [('fs-numpy|compute_features fs=%s' % tag, exp, lambda val=val: compute_features(sig, val, FR)),
              ('fs-numpy|find_extrema fs=%s' % tag, exp, lambda val=val: find_extrema(sig, val, FR)),
              ('fs-numpy|limit_df fs=%s' % tag, exp, lambda val=val: limit_df(df.copy(), val, 0, 1)),
              ('fs-numpy|Bycycle.fit fs=%s' % tag, exp, lambda val=val: Bycycle().fit(sig, val, FR))]
    # tables / label arrays without any cycle: the settings are checked all the same
    empty_tab = df.iloc[0:0]
    P += [('min_n_cycles-empty|check_min_burst_cycles(empty) -1', 'reject', lambda: check_min_burst_cycles(np.array([], dtype=bool), min_n_cycles=-1)),
          ('min_n_cycles-empty|detect_bursts_cycles(empty table) -1', 'reject', lambda: detect_bursts_cycles(empty_tab.copy(), min_n_cycles=-1)),
          ('thr-empty|detect_bursts_cycles(empty table) monotonicity 1.5', 'reject', lambda: detect_bursts_cycles(empty_tab.copy(), monotonicity_threshold=1.5)),
          ('min_n_cycles-empty-valid|detect_bursts_cycles(empty table) 2', 'accept', lambda: detect_bursts_cycles(empty_tab.copy(), min_n_cycles=2))]
    # per-epoch option lists (axis=None): an out-of-range threshold is rejected wherever it sits in the list - in the first entry, in
    # the entry of an epoch that holds cycles and in the entry of an epoch that holds none
    ep = tiny(None)[:160].reshape(32, 5)
    try:
        with quiet():
            tabs = compute_features_2d(ep, FS, FR, compute_features_kwargs=[{} for _ in range(len(ep))], axis=None, n_jobs=1)
        empty = [i for i, t in enumerate(tabs) if len(t) == 0 and i > 0]
        full = [i for i, t in enumerate(tabs) if len(t) > 0 and i > 0]
    except Exception:
        empty, full = [], []
    for where, idxs in (('first-entry', [0]), ('epoch-with-cycles', full[:2]), ('epoch-without-cycles', empty[:3])):
        for i in idxs:
            for key, val in (('amp_consistency_threshold', 1.5), ('monotonicity_threshold', -1.0), ('min_n_cycles', -2)):
                def fn(i=i, key=key, val=val):
                    kws = [{} for _ in range(len(ep))]
                    kws[i] = {'threshold_kwargs': {key: val}}
                    return compute_features_2d(ep, FS, FR, compute_features_kwargs=kws, axis=None, n_jobs=1)
                P.append(('thr-per-epoch|%s entry %d %s=%r' % (where, i, key, val), 'reject', fn))
                sh.note('per_epoch_probe:' + where) if sh.shard == 0 else None
            for val in ('foo', 'Cycles', None):
                def fn2(i=i, val=val):
                    kws = [{} for _ in range(len(ep))]
                    kws[i] = {'burst_method': val}
                    return compute_features_2d(ep, FS, FR, compute_features_kwargs=kws, axis=None, n_jobs=1)
                P.append(('burst_method-per-epoch|%s entry %d %r' % (where, i, val), 'reject', fn2))
    P.append(('burst_method-per-epoch-valid|all entries cycles', 'accept',
              lambda: compute_features_2d(ep, FS, FR, compute_features_kwargs=[{'burst_method': 'cycles'} for _ in range(len(ep))], axis=None, n_jobs=1)))
    P.append(('thr-per-epoch-valid|all entries valid', 'accept',
              lambda: compute_features_2d(ep, FS, FR, compute_features_kwargs=[{'threshold_kwargs': {'monotonicity_threshold': .5}} for _ in range(len(ep))],
                                          axis=None, n_jobs=1)))
    # enumerations
    for val in ('middle', 'Peak', None, 0):
        P += [('center_extrema|compute_features %r' % (val,), 'reject', lambda val=val: compute_features(sig, FS, FR, center_extrema=val)),
              ('center_extrema|compute_shape_features %r' % (val,), 'reject',
               lambda val=val: compute_shape_features(sig, FS, FR, center_extrema=val)),
              ('center_extrema|Bycycle.fit %r' % (val,), 'reject', lambda val=val: Bycycle(center_extrema=val).fit(sig, FS, FR))]
    for val in ('peak', 'trough'):
        P += [('center_extrema-valid|compute_features %r' % val, 'accept', lambda val=val: compute_features(sig, FS, FR, center_extrema=val))]
    for val in ('consistency', 'Cycles', None):
        P += [('burst_method|compute_features %r' % (val,), 'reject', lambda val=val: compute_features(sig, FS, FR, burst_method=val)),
              ('burst_method|compute_burst_features %r' % (val,), 'reject',
               lambda val=val: compute_burst_features(shapes, sig, burst_method=val, burst_kwargs={'fs': FS, 'f_range': FR})),
              ('burst_method|Bycycle.fit %r' % (val,), 'reject',
               lambda val=val: Bycycle(burst_method=val, thresholds={'min_n_cycles': 3}).fit(sig, FS, FR))]
    for val in ('cycles', 'amp'):
        P += [('burst_method-valid|compute_features %r' % val, 'accept', lambda val=val: compute_features(sig, FS, FR, burst_method=val))]
    for val in ('rise', 'Peak', 0):
        P += [('first_extrema|find_extrema %r' % (val,), 'reject', lambda val=val: find_extrema(sig, FS, FR, first_extrema=val))]
    # ... also when the boundary leaves no extremum at all (nothing to align): an unknown value is still rejected
    for val in ('rise', 'Peak', 0, 'both'):
        for b in (NS // 2, NS - 1, 10 * NS):
            P += [('first_extrema|find_extrema %r boundary=%d' % (val, b), 'reject',
                   lambda val=val, b=b: find_extrema(sig, FS, FR, first_extrema=val, boundary=b))]
    P += [('first_extrema-valid|find_extrema None boundary=%d' % (10 * NS), 'accept', lambda: find_extrema(sig, FS, FR, first_extrema=None, boundary=10 * NS))]
    for val in ('peak', 'trough', None):
        P += [('first_extrema-valid|find_extrema %r' % (val,), 'accept', lambda val=val: find_extrema(sig, FS, FR, first_extrema=val))]
    P += [('first_extrema|compute_shape_features given', 'reject',
           lambda: compute_shape_features(sig, FS, FR, find_extrema_kwargs={'first_extrema': 'trough'}))]
    for val in ('previous', 'Both', None):
        P += [('direction|compute_amp_consistency %r' % (val,), 'reject', lambda val=val: compute_amp_consistency(shapes, direction=val)),
              ('direction|compute_period_consistency %r' % (val,), 'reject', lambda val=val: compute_period_consistency(shapes, direction=val)),
              ('direction|recompute_edge %r' % (val,), 'reject', lambda val=val: recompute_edge(df.copy(), 2, val))]
    for val in ('both', 'next', 'last'):
        P += [('direction-valid|compute_amp_consistency %r' % val, 'accept', lambda val=val: compute_amp_consistency(shapes, direction=val)),
              ('direction-valid|compute_period_consistency %r' % val, 'accept', lambda val=val: compute_period_consistency(shapes, direction=val))]
    for val in ('bar', 'TQDM', 1, False, 0, '', True):
        P += [('progress|progress_bar %r' % (val,), 'reject', lambda val=val: list(progress_bar(iter([1, 2]), val, 2))),
              ('progress|compute_features_2d %r' % (val,), 'reject', lambda val=val: compute_features_2d(s2, FS, FR, n_jobs=1, progress=val)),
              ('progress|compute_features_3d %r' % (val,), 'reject', lambda val=val: compute_features_3d(s3, FS, FR, n_jobs=1, progress=val)),
              ('progress|compute_features_3d(0,1) %r' % (val,), 'reject',
               lambda val=val: compute_features_3d(s3, FS, FR, n_jobs=1, progress=val, axis=(0, 1))),
              ('progress|BycycleGroup.fit %r' % (val,), 'reject', lambda val=val: BycycleGroup().fit(s2, FS, FR, n_jobs=1, progress=val)),
              # ... also where no bar would be shown anyway (one flattened analysis): an unknown value is still not analysed
              ('progress|compute_features_2d(axis=None) %r' % (val,), 'reject',
               lambda val=val: compute_features_2d(s2, FS, FR, n_jobs=1, progress=val, axis=None)),
              ('progress|BycycleGroup.fit(axis=None) %r' % (val,), 'reject',
               lambda val=val: BycycleGroup().fit(s2, FS, FR, n_jobs=1, progress=val, axis=None))]
    for val in (None, 'tqdm', 'tqdm.notebook'):
        P += [('progress-valid|compute_features_2d %r' % (val,), 'accept',
               lambda val=val: compute_features_2d(s2, FS, FR, n_jobs=1, progress=val)),
              ('progress-valid|compute_features_2d(axis=None) %r' % (val,), 'accept',
               lambda val=val: compute_features_2d(s2, FS, FR, n_jobs=1, progress=val, axis=None))]
    for val in (2, -1, 'x', (1, 0)):
        P += [('axis|BycycleGroup.fit(2d) %r' % (val,), 'reject', lambda val=val: BycycleGroup().fit(s2, FS, FR, axis=val, n_jobs=1)),
              ('axis|BycycleGroup.fit(3d) %r' % (val,), 'reject', lambda val=val: BycycleGroup().fit(s3, FS, FR, axis=val, n_jobs=1))]
    P += [('axis|BycycleGroup.fit(2d) 1', 'reject', lambda: BycycleGroup().fit(s2, FS, FR, axis=1, n_jobs=1)),
          ('axis|BycycleGroup.fit(2d) (0,1)', 'reject', lambda: BycycleGroup().fit(s2, FS, FR, axis=(0, 1), n_jobs=1)),
          ('axis|BycycleGroup.fit(3d) None', 'reject', lambda: BycycleGroup().fit(s3, FS, FR, axis=None, n_jobs=1)),
          ('axis-valid|BycycleGroup.fit(2d) None', 'accept', lambda: BycycleGroup().fit(s2, FS, FR, axis=None, n_jobs=1)),
          ('axis-valid|BycycleGroup.fit(3d) (0,1)', 'accept', lambda: BycycleGroup().fit(s3, FS, FR, axis=(0, 1), n_jobs=1))]
    # dimensionality
    P += [('ndim|Bycycle.fit 2d', 'reject', lambda: Bycycle().fit(s2, FS, FR)),
          ('ndim|Bycycle.fit 3d', 'reject', lambda: Bycycle().fit(s3, FS, FR)),
          ('ndim|BycycleGroup.fit 1d', 'reject', lambda: BycycleGroup().fit(sig, FS, FR, n_jobs=1)),
          ('ndim|BycycleGroup.fit 4d', 'reject', lambda: BycycleGroup().fit(tiny((1, 1, 2)), FS, FR, n_jobs=1)),
          ('ndim-valid|Bycycle.fit 1d', 'accept', lambda: Bycycle().fit(sig, FS, FR)),
          # extra axes of extent 1 do not make an array 1-dimensional
          ('ndim|Bycycle.fit shape (1, n)', 'reject', lambda: Bycycle().fit(sig[None, :], FS, FR)),
          ('ndim|Bycycle.fit shape (n, 1)', 'reject', lambda: Bycycle().fit(sig[:, None], FS, FR)),
          ('ndim|Bycycle.fit shape (1, 1, n)', 'reject', lambda: Bycycle().fit(sig[None, None, :], FS, FR)),
          ('ndim|BycycleGroup.fit shape (1, 1, 1, n)', 'reject', lambda: BycycleGroup().fit(sig[None, None, None, :], FS, FR, n_jobs=1)),
          ('ndim-valid|BycycleGroup.fit shape (1, n)', 'accept', lambda: BycycleGroup().fit(sig[None, :], FS, FR, n_jobs=1)),
          ('ndim-valid|BycycleGroup.fit shape (1, 1, n)', 'accept', lambda: BycycleGroup().fit(sig[None, None, :], FS, FR, n_jobs=1))]
    # plotting before fitting

    def plot_after_fit():
        bm = Bycycle()
        bm.fit(sig, FS, FR)
        bm.plot()
        plt.close('all')

    def plot_after_load_only_table():
        bm = Bycycle()
        bm.df_features = df
        bm.plot()
    def plot_after_rejected_fit(kw):
        bm = Bycycle(**kw)
        try:
            bm.fit(sig, FS, FR)
        except ValueError:
            pass
        bm.plot()
    for nm, kw in (('threshold', {'thresholds': {'monotonicity_threshold': 1.5}}), ('min_n_cycles', {'thresholds': {'min_n_cycles': -1}}),
                   ('center_extrema', {'center_extrema': 'middle'}), ('burst_method', {'burst_method': 'consistency', 'thresholds': {'min_n_cycles': 3}})):
        P.append(('plot-before-fit|plot after a fit that was rejected (%s)' % nm, 'reject', lambda kw=kw: plot_after_rejected_fit(kw)))
    P += [('plot-before-fit|Bycycle().plot()', 'reject', lambda: Bycycle().plot()),
          ('plot-before-fit|table set but no signal', 'reject', plot_after_load_only_table),
          ('plot-valid|fit then plot', 'accept', plot_after_fit)]
    n = 0
    for i, (name, exp, fn) in enumerate(P):
        if i % sh.nshards != sh.shard:
            continue
        guarded(sh, judge, sh, name, exp, fn, {'cell': 'param', 'probe': name, 'expected': exp})
        plt.close('all')
        sh.nontrivial.add('param:%d' % i)
        sh.note('param_class:' + name.split('|')[0])
        n += 1
    sh.cases += n
    sh.exhaustive['parameter_probes'] = {'cells': n}
    sh.samples.append({'probe': P[0][0], 'expected': P[0][1]})


def run(sh):
    grid(sh)
    params(sh)


def replay(sh, driver, case):
    # probes are enumerated, not generated: replaying means re-running the enumeration
    sh.nshards, sh.shard = 1, 0
    grid(sh)
    params(sh)
