"""C20 - plots draw the analysis they are given."""
import copy

import numpy as np

from .. import attach, gen, monitors, plotprobe
from ..runner import quiet

PROP = 'C20'
FS_PLOT = [100., 128., 250., 500., 1000., 1024., 2000., 44100.]


def setup(sh):
    pass


def grid_ok(k, fs):
    """k/fs is a sample time under both ways a time axis can be built (arange(n)/fs and arange(0, n/fs, 1/fs))."""
    return k / fs == k * (1 / fs)


def snap_grid(k, fs, n, direction=1):
    k = int(min(max(k, 0), n))
    for _ in range(64):
        if grid_ok(k, fs):
            return k
        k += direction
        if k < 0 or k > n:
            break
    return None


def make_table(rng, method=None):
    from bycycle.features import compute_features
    fs = float(rng.choice(FS_PLOT[:-1])) if rng.random() < 0.93 else 44100.
    lo, hi = (8., 12.) if fs < 44100 else (300., 600.)
    dur = rng.uniform(2.0, 6.0) if fs < 44100 else rng.uniform(0.05, 0.12)
    sig, fam = gen.gen_signal(rng, fs, lo, hi, dur, str(rng.choice(['bursty', 'bursty', 'oscnoise', 'asine', 'noise', 'sum', 'quant', 'tail'])))
    if rng.random() < 0.25:
        # float-unfriendly lengths: np.arange(0, n/fs, 1/fs) has n+1 elements for some (n, fs)
        for n_try in range(len(sig), max(len(sig) - 400, 8), -1):
            if len(np.arange(0, n_try / fs, 1 / fs)) != n_try:
                sig = sig[:n_try]
                fam += '+len'
                break
    center = str(rng.choice(['peak', 'trough']))
    method = method or str(rng.choice(['cycles', 'cycles', 'amp']))
    if method == 'cycles':
        thr = dict(amp_fraction_threshold=float(rng.choice([0., .1, .3])), amp_consistency_threshold=float(rng.choice([.2, .4])),
                   period_consistency_threshold=float(rng.choice([.3, .5])), monotonicity_threshold=float(rng.choice([.3, .5, .7])),
                   min_n_cycles=int(rng.choice([1, 2, 3])))
        if rng.random() < 0.3:
            del thr['min_n_cycles']
        bk = None
    else:
        thr = dict(burst_fraction_threshold=float(rng.choice([.3, .5, .8, 1.])), min_n_cycles=int(rng.choice([1, 2, 3])))
        bk = {'amp_threshes': (.5, 1.5)}
    with quiet():
        df = compute_features(sig, fs, (lo, hi), center_extrema=center, burst_method=method, threshold_kwargs=copy.deepcopy(thr),
                              burst_kwargs=copy.deepcopy(bk))
    order = list(thr)
    if rng.random() < 0.5:
        order = [order[i] for i in rng.permutation(len(order))]
    return dict(df=df, sig=sig, fs=fs, f_range=(lo, hi), center=center, method=method, thr=thr, bk=bk, family=fam,
                thr_order=order, thr_shorthand=bool(rng.random() < 0.4))


def choose_xlim(rng, tab, kind):
    df, fs, n = tab['df'], tab['fs'], len(tab['sig'])
    side = 'trough' if tab['center'] == 'peak' else 'peak'
    L = df['sample_last_' + side].to_numpy()
    N = df['sample_next_' + side].to_numpy()
    if kind == 'none' or len(df) < 3:
        return None
    if kind == 'random':
        k0 = int(rng.integers(0, n // 2))
        k1 = int(rng.integers(k0 + 5, n))
    elif kind == 'start_on_side':
        r = int(rng.integers(0, len(df) - 1))
        k0, k1 = int(L[r]), int(rng.integers(int(N[r]), n))
    elif kind == 'end_on_side':
        r = int(rng.integers(1, len(df)))
        k1 = int(N[r]) + int(rng.choice([0, 1]))          # stop exactly on / one past the closing extremum
        k0 = int(rng.integers(0, max(1, int(L[r]))))
    elif kind == 'trunc_start':
        # start samples k whose time k/fs multiplies back to just below k: truncation instead of rounding shows here
        ks = [k for k in range(1, max(2, n - 10)) if grid_ok(k, fs) and int((k / fs) * fs) != k]
        if not ks:
            return None
        k0 = int(ks[int(rng.integers(0, len(ks)))])
        k1 = int(rng.integers(k0 + 5, n))
    elif kind == 'no_cycle':
        r = int(rng.integers(0, len(df)))
        k0 = int(L[r]) + 1
        k1 = max(k0 + 3, int(N[r]) - 1)
    else:
        raise KeyError(kind)
    k0 = snap_grid(k0, fs, n, +1) if kind not in ('start_on_side', 'trunc_start') else (k0 if grid_ok(k0, fs) else None)
    if kind == 'end_on_side':
        k1 = k1 if grid_ok(k1, fs) else None
    else:
        k1 = snap_grid(k1, fs, n, -1)
    if k0 is None or k1 is None or k1 - k0 < 3 or k1 > n:
        return None
    return (k0 / fs, k1 / fs)


def finish(sh, case, vs, driver):
    import matplotlib.pyplot as plt
    plt.close('all')
    for v in vs:
        sh.violate(case, v, driver)


def table_arrays(tab):
    df = tab['df']
    center = tab['center']
    side = 'trough' if center == 'peak' else 'peak'
    return dict(C=df['sample_' + center].to_numpy().astype(int), L=df['sample_last_' + side].to_numpy().astype(int),
                N=df['sample_next_' + side].to_numpy().astype(int), R=df['sample_zerox_rise'].to_numpy().astype(int),
                D=df['sample_zerox_decay'].to_numpy().astype(int))


def run_cyclepoints_df(sh, tab, xlim, pe, pz, plot_sig=True, driver='cyclepoints_df'):
    import matplotlib.pyplot as plt
    from bycycle.plts import plot_cyclepoints_df
    fs, sig = tab['fs'], np.asarray(tab['sig'])
    A = table_arrays(tab)
    case = dict(tab, xlim=xlim, plot_extrema=pe, plot_zerox=pz, plot_sig=plot_sig, figure='cyclepoints_df')
    vs = []
    plt.close('all')
    try:
        with quiet():
            plot_cyclepoints_df(tab['df'], sig, fs, plot_sig=plot_sig, plot_extrema=pe, plot_zerox=pz, xlim=xlim)
    except Exception as e:
        vs.append({'mechanism': 'raised:' + attach.exc_mechanism(e),
                   'message': 'plot_cyclepoints_df raised %r (xlim=%s, n=%d, fs=%g, %s-centred)' % (e, xlim, len(sig), fs, tab['center'])})
        finish(sh, case, vs, driver)
        return False
    attach.count('eval:figure_inspected')
    ax = plt.gcf().axes[0]
    lines = list(ax.lines)
    view = np.array([], dtype=int)
    ty = {}
    if plot_sig:
        tx, tyv, _ = plotprobe.line_xy(lines[0])
        V = plotprobe.to_samples(tx, fs)
        if V is None or (len(V) and (V[0] < 0 or V[-1] >= len(sig) or not np.array_equal(tyv, sig[V]))):
            vs.append({'mechanism': 'trace-not-the-signal', 'message': 'the plotted trace is not the signal on its sample times'})
            finish(sh, case, vs, driver)
            return True
        view = V
        ty = dict(zip(V.tolist(), tyv.tolist()))
        lines = lines[1:]
    series = []
    if pe:
        series += [('centre extremum', set(A['C'].tolist())), ('side extremum', set(A['L'].tolist()) | set(A['N'].tolist()))]
    if pz:
        series += [('rise midpoint', set(A['R'].tolist())), ('decay midpoint', set(A['D'].tolist()))]
    v, nchk = plotprobe.check_marker_series([l for l in lines if plotprobe.is_marker_line(l)], series, fs, view,
                                            (lambda k: ty.get(k)) if plot_sig else (lambda k: float(sig[k]) if 0 <= k < len(sig) else None),
                                            'plot_cyclepoints_df')
    attach.count('C20:markers_checked', nchk)
    if v is not None:
        vs.append({'mechanism': v[0], 'message': v[1] + ' (xlim=%s, fs=%g, n=%d, %s-centred)' % (xlim, fs, len(sig), tab['center'])})
    finish(sh, case, vs, driver)
    return True


def run_cyclepoints_array(sh, tab, xlim, rng_bits, driver='cyclepoints_array'):
    import matplotlib.pyplot as plt
    from bycycle.plts import plot_cyclepoints_array
    from bycycle.cyclepoints import find_extrema, find_zerox
    fs, sig = tab['fs'], np.asarray(tab['sig'])
    fe = [None, 'peak', 'trough'][rng_bits % 3]
    try:
        with quiet():
            p, t = find_extrema(sig, fs, tab['f_range'], first_extrema=fe)
            r, d = find_zerox(sig, p, t)
    except Exception:
        return False
    which = [(rng_bits >> 2) & 1, (rng_bits >> 3) & 1, (rng_bits >> 4) & 1, (rng_bits >> 5) & 1]
    if not any(which):
        which[0] = 1
    arrs = [p, t, r, d]
    names = ['peak', 'trough', 'rise midpoint', 'decay midpoint']
    kw = {n_: a for n_, a, w in zip(['peaks', 'troughs', 'rises', 'decays'], arrs, which) if w}
    case = dict(sig=sig, fs=fs, xlim=xlim, figure='cyclepoints_array', first_extrema=fe, kinds=[n_ for n_, w in zip(names, which) if w],
                f_range=tab['f_range'])
    vs = []
    plt.close('all')
    try:
        with quiet():
            plot_cyclepoints_array(sig, fs, xlim=xlim, **kw)
    except Exception as e:
        vs.append({'mechanism': 'raised:' + attach.exc_mechanism(e),
                   'message': 'plot_cyclepoints_array raised %r (xlim=%s, n=%d, fs=%g)' % (e, xlim, len(sig), fs)})
        finish(sh, case, vs, driver)
        return False
    attach.count('eval:figure_inspected')
    ax = plt.gcf().axes[0]
    lines = list(ax.lines)
    tx, tyv, _ = plotprobe.line_xy(lines[0])
    V = plotprobe.to_samples(tx, fs)
    if V is None or (len(V) and (V[0] < 0 or V[-1] >= len(sig) or not np.array_equal(tyv, sig[V]))):
        vs.append({'mechanism': 'trace-not-the-signal', 'message': 'the plotted trace is not the signal on its sample times'})
    else:
        ty = dict(zip(V.tolist(), tyv.tolist()))
        series = [(n_, set(int(v) for v in a)) for n_, a, w in zip(names, arrs, which) if w]
        v, nchk = plotprobe.check_marker_series([l for l in lines[1:] if plotprobe.is_marker_line(l)], series, fs, V, lambda k: ty.get(k),
                                                'plot_cyclepoints_array')
        attach.count('C20:markers_checked', nchk)
        if v is not None:
            vs.append({'mechanism': v[0], 'message': v[1] + ' (xlim=%s, fs=%g, n=%d)' % (xlim, fs, len(sig))})
    finish(sh, case, vs, driver)
    return True


def check_panel(pl, A, vals, thr_value, fs, vmin, vmax, interp, xlim, col):
    """One parameter panel: points are (centre, value) of cycles [steps: (last side, next side, value)], every cycle lying
    entirely inside the view is shown, threshold line at the given level.  Returns a violation dict or None."""
    if len(pl) < 2:
        return {'mechanism': 'panel-lines', 'message': 'panel %s has %d lines' % (col, len(pl))}
    px, py, _ = plotprobe.line_xy(pl[0])
    thx, thy, _ = plotprobe.line_xy(pl[1])
    attach.count('C20:panels_checked')
    if not np.all(thy == thr_value):
        return {'mechanism': 'threshold-line-level', 'message': 'panel %s: threshold line at %s, threshold given %r' % (col, thy[:2], thr_value)}
    s = plotprobe.to_samples(px, fs)
    if s is None:
        return {'mechanism': 'panel-point-off-grid', 'message': 'panel %s: a point is not at a sample time' % col}
    # cycles lying entirely inside the view (all their samples are plotted), as in the highlight clause
    strictly = [i for i in range(len(A['C'])) if A['L'][i] >= vmin and A['N'][i] <= vmax]
    if interp:
        drawn = set()
        for si, yi in zip(s.tolist(), py.tolist()):
            idx = np.flatnonzero(A['C'] == si)
            if len(idx) != 1 or not (vals[idx[0]] == yi or (vals[idx[0]] != vals[idx[0]] and yi != yi)):
                return {'mechanism': 'panel-point-not-a-cycle-value',
                        'message': 'panel %s: point (sample %d, %r) is not (centre, value) of a cycle%s (xlim=%s, fs=%g)'
                                   % (col, si, yi, '' if len(idx) != 1 else ' (value of that cycle: %r)' % vals[idx[0]], xlim, fs)}
            drawn.add(int(idx[0]))
        miss = [i for i in strictly if i not in drawn]
        if miss:
            return {'mechanism': 'panel-cycle-missing',
                    'message': 'panel %s: cycle %d [%d, %d] lies entirely inside the view [%d, %d] but is not shown (xlim=%s, fs=%g)'
                               % (col, miss[0], A['L'][miss[0]], A['N'][miss[0]], vmin, vmax, xlim, fs)}
        return None
    if len(s) % 2:
        return {'mechanism': 'panel-step-odd', 'message': 'panel %s: odd number of step points' % col}
    drawn = set()
    for j in range(0, len(s), 2):
        idx = np.flatnonzero(A['L'] == s[j])
        ok = len(idx) == 1 and A['N'][idx[0]] == s[j + 1]
        if ok:
            v0 = vals[idx[0]]
            ok = all((v0 == yy or (v0 != v0 and yy != yy)) for yy in (py[j], py[j + 1]))
        if not ok:
            return {'mechanism': 'panel-step-not-a-cycle-value',
                    'message': 'panel %s: step (%d..%d, %r) is not (last side, next side, value) of a cycle (xlim=%s, fs=%g)'
                               % (col, s[j], s[j + 1], py[j], xlim, fs)}
        drawn.add(int(idx[0]))
    miss = [i for i in strictly if i not in drawn]
    if miss:
        return {'mechanism': 'panel-cycle-missing', 'message': 'panel %s (steps): cycle %d entirely inside the view is not shown (xlim=%s, fs=%g)'
                                                               % (col, miss[0], xlim, fs)}
    return None


def run_param_direct(sh, tab, xlim, interp, driver='param_direct'):
    """plot_burst_detect_param on its own axes: the dashed threshold line spans the plotted view."""
    import matplotlib.pyplot as plt
    from bycycle.plts import plot_burst_detect_param
    fs, sig, df = tab['fs'], np.asarray(tab['sig']), tab['df']
    A = table_arrays(tab)
    col = 'monotonicity' if tab['method'] == 'cycles' else 'burst_fraction'
    thr_value = 0.45
    case = dict(tab, xlim=xlim, interp=interp, figure='param_direct')
    vs = []
    plt.close('all')
    try:
        with quiet():
            plot_burst_detect_param(df, sig, fs, col, thr_value, xlim=xlim, interp=interp)
    except Exception as e:
        vs.append({'mechanism': 'raised:' + attach.exc_mechanism(e),
                   'message': 'plot_burst_detect_param raised %r (xlim=%s, n=%d, fs=%g, %s-centred)' % (e, xlim, len(sig), fs, tab['center'])})
        finish(sh, case, vs, driver)
        return
    attach.count('eval:figure_inspected')
    pl = list(plt.gcf().axes[0].lines)
    if len(pl) >= 2:
        thx, _, _ = plotprobe.line_xy(pl[1])
        V = plotprobe.to_samples(thx, fs)
        if V is None or len(V) != 2:
            vs.append({'mechanism': 'threshold-line-span', 'message': 'threshold line does not span sample times: %s' % (thx * fs)})
        else:
            # the view must be the window that was asked for: samples with start <= t < stop
            k0 = 0 if xlim is None else int(round(xlim[0] * fs))
            k1 = len(sig) - 1 if xlim is None else int(round(xlim[1] * fs)) - 1
            if (int(V[0]), int(V[1])) != (k0, min(k1, len(sig) - 1)):
                vs.append({'mechanism': 'panel-view-not-the-window', 'message': 'threshold line spans samples %s, window is [%d, %d]' % (V.tolist(), k0, k1)})
            else:
                v = check_panel(pl, A, df[col].to_numpy().astype(float), thr_value, fs, int(V[0]), int(V[1]), interp, xlim, col)
                if v is not None:
                    vs.append(v)
    else:
        vs.append({'mechanism': 'panel-lines', 'message': 'direct panel has %d lines' % len(pl)})
    finish(sh, case, vs, driver)



def run_summary(sh, tab, xlim, plot_only_result, interp, api='func', driver='summary'):
    import matplotlib.pyplot as plt
    from bycycle.plts import plot_burst_detect_summary
    from bycycle import Bycycle
    fs, sig, df, thr = tab['fs'], np.asarray(tab['sig']), tab['df'], tab['thr']
    A = table_arrays(tab)
    lab = df['is_burst'].to_numpy().astype(bool)
    case = dict(tab, xlim=xlim, plot_only_result=plot_only_result, interp=interp, api=api, figure='summary')
    vs = []
    plt.close('all')
    try:
        with quiet():
            # the thresholds as the caller wrote them: keys in the caller's own order (min_n_cycles anywhere), for the object
            # optionally with the documented shorthand names ('monotonicity' for 'monotonicity_threshold')
            order = tab.get('thr_order') or list(thr)
            thr_call = {k: copy.deepcopy(thr[k]) for k in order if k in thr}
            thr_call.update({k: copy.deepcopy(v) for k, v in thr.items() if k not in thr_call})
            if list(thr_call) != list(thr):
                attach.count('C20:threshold_keys_in_another_order')
            if api == 'func':
                plot_burst_detect_summary(df, sig, fs, thr_call, xlim=xlim, plot_only_result=plot_only_result, interp=interp)
            else:
                if tab.get('thr_shorthand'):
                    thr_call = {(k[:-len('_threshold')] if k.endswith('_threshold') else k): v for k, v in thr_call.items()}
                    attach.count('C20:threshold_shorthand_names')
                bm = Bycycle(center_extrema=tab['center'], burst_method=tab['method'], thresholds=thr_call,
                             burst_kwargs=copy.deepcopy(tab['bk']))
                bm.load(df, sig, fs, tab['f_range'])
                bm.plot(xlim=xlim, plot_only_results=plot_only_result, interp=interp)
    except Exception as e:
        vs.append({'mechanism': 'raised:' + attach.exc_mechanism(e),
                   'message': 'burst summary raised %r (xlim=%s, n=%d, fs=%g, %s-centred, interp=%s)' % (e, xlim, len(sig), fs, tab['center'], interp)})
        finish(sh, case, vs, driver)
        return False, False
    attach.count('eval:figure_inspected')
    axes = plt.gcf().axes
    ax0 = axes[0]
    lines = list(ax0.lines)
    tx, tyv, _ = plotprobe.line_xy(lines[0])
    V = plotprobe.to_samples(tx, fs)
    nontrivial = False
    if V is None or len(V) == 0:
        vs.append({'mechanism': 'trace-off-grid', 'message': 'trace x values are not sample times'})
        finish(sh, case, vs, driver)
        return True, False
    vmin, vmax = int(V[0]), int(V[-1])
    # highlighted samples = unmasked samples of the second line
    hx, hy, hmask = plotprobe.line_xy(lines[1])
    H = plotprobe.to_samples(hx, fs)
    hl = set(H[~hmask].tolist()) if H is not None else set()
    burst_samples = set()
    for a, b, l in zip(A['L'].tolist(), A['N'].tolist(), lab.tolist()):
        if l:
            burst_samples.update(range(a, b + 1))
    extra = sorted(hl - burst_samples)
    if extra:
        vs.append({'mechanism': 'highlight-outside-burst-cycles',
                   'message': 'sample %d is highlighted but belongs to no cycle labelled is_burst (view [%d, %d], xlim=%s, fs=%g, %s-centred)'
                              % (extra[0], vmin, vmax, xlim, fs, tab['center'])})
    else:
        for a, b, l in zip(A['L'].tolist(), A['N'].tolist(), lab.tolist()):
            if l and a >= vmin and b <= vmax:
                miss = [k for k in range(a, b + 1) if k not in hl]
                if miss:
                    vs.append({'mechanism': 'burst-cycle-not-fully-highlighted',
                               'message': 'burst cycle [%d, %d] lies inside the view [%d, %d] but samples %s.. are not highlighted '
                                          '(xlim=%s, xlim[0]*fs=%r, fs=%g, %s-centred)'
                                          % (a, b, vmin, vmax, miss[:3], xlim, None if xlim is None else xlim[0] * fs, fs, tab['center'])})
                    break
    inside = [(a, b, l) for a, b, l in zip(A['L'].tolist(), A['N'].tolist(), lab.tolist()) if a >= vmin and b <= vmax]
    cut = any((a < vmin <= b) or (a <= vmax < b) for a, b in zip(A['L'].tolist(), A['N'].tolist()))
    nontrivial = cut and any(l for _, _, l in inside) and any(not l for _, _, l in inside)
    # markers on the summary axes: centre and side extrema, y = plotted (normalised) signal
    if not vs:
        ty = dict(zip(V.tolist(), tyv.tolist()))
        series = [('centre extremum', set(A['C'].tolist())), ('side extremum', set(A['L'].tolist()) | set(A['N'].tolist()))]
        # (the statement's completeness clause is about the cyclepoint plots; the summary draws the cyclepoints of the
        #  cycles it kept, so only genuineness and the y value are asserted here)
        v, nchk = plotprobe.check_marker_series([l for l in lines[2:] if plotprobe.is_marker_line(l)], series, fs, V, lambda k: ty.get(k),
                                                'burst summary', completeness=False)
        attach.count('C20:markers_checked', nchk)
        if v is not None:
            vs.append({'mechanism': v[0], 'message': v[1] + ' (xlim=%s, fs=%g, %s-centred)' % (xlim, fs, tab['center'])})
    # parameter panels
    keys = [k for k in thr if k != 'min_n_cycles']
    if not vs and not plot_only_result:
        if len(axes) != len(keys) + 1:
            vs.append({'mechanism': 'panel-count', 'message': '%d axes for %d thresholds' % (len(axes), len(keys))})
        shown = []
        for pos, ax in enumerate(axes[1:]):
            # which parameter a panel shows is read from its label, not from its position
            lab_txt = str(ax.get_ylabel()).lower().replace(' ', '_').replace('\n', '_')
            hit = [k for k in keys if lab_txt.startswith(k.replace('_threshold', ''))]
            shown.append(max(hit, key=len) if hit else (keys[pos] if pos < len(keys) else None))
        if not vs and sorted(k for k in shown if k) != sorted(keys):
            vs.append({'mechanism': 'panel-set', 'message': 'panels show %s, thresholds given for %s' % (shown, keys)})
        for ax, key in zip(axes[1:], shown):
            if vs:
                break
            col = key.replace('_threshold', '')
            v = check_panel(list(ax.lines), A, df[col].to_numpy().astype(float), thr[key], fs, vmin, vmax, interp, xlim, col)
            if v is not None:
                vs.append(v)
    finish(sh, case, vs, driver)
    return True, nontrivial


XKINDS = ['none', 'random', 'trunc_start', 'start_on_side', 'end_on_side', 'no_cycle']


def run(sh):
    rng = gen.rng_for(sh.seed, PROP, sh.shard)
    K = 7 if sh.tier == 'quick' else 150
    for it in range(K):
        try:
            tab = make_table(rng)
        except Exception:
            sh.note('table_raised')
            continue
        if len(tab['df']) < 3:
            continue
        for kind in XKINDS:
            xlim = choose_xlim(rng, tab, kind)
            if xlim is None and kind != 'none':
                sh.note('xlim_not_on_unambiguous_grid')
                continue
            cls = '%s:%s:fs=%g' % (tab['center'], kind, tab['fs'])
            pe, pz = bool(rng.random() < 0.8), bool(rng.random() < 0.8)
            if not (pe or pz):
                pe = True
            run_cyclepoints_df(sh, tab, xlim, pe, pz)
            run_cyclepoints_array(sh, tab, xlim, int(rng.integers(0, 64)))
            ok, nt = run_summary(sh, tab, xlim, bool(rng.random() < 0.3), bool(rng.random() < 0.6),
                                 api='func' if rng.random() < 0.75 else 'obj')
            run_param_direct(sh, tab, xlim, bool(rng.random() < 0.5))
            if rng.random() < 0.3:
                run_cyclepoints_df(sh, tab, xlim, True, bool(rng.random() < 0.5), plot_sig=False)
            if rng.random() < 0.6:
                # a selection of the table (the bursting cycles only / every other cycle): rows are no longer neighbouring cycles
                d0 = tab['df']
                b = d0['is_burst'].to_numpy().astype(bool)
                sub = d0[b] if 2 <= b.sum() < len(d0) and rng.random() < 0.6 else d0.iloc[int(rng.integers(0, 2))::2]
                if len(sub) >= 2:
                    run_cyclepoints_df(sh, dict(tab, df=sub), xlim, True, bool(rng.random() < 0.5))
                    sh.note('cyclepoints_of_a_table_with_dropped_rows')
            sh.note('figures:' + cls, 4)
            sh.note('xlim:' + kind)
            sh.case_done(None, nt, key='%d:%d:%s' % (sh.shard, it, kind),
                         sample={'fs': tab['fs'], 'n': len(tab['sig']), 'center': tab['center'], 'method': tab['method'], 'xlim': xlim,
                                 'xlim_kind': kind, 'thresholds': tab['thr'], 'family': tab['family']})
    for k, v in attach.COUNTS.items():
        if k.startswith('C20:'):
            sh.classes[k[4:]] = v


def replay(sh, driver, case):
    tab = {k: case[k] for k in ('df', 'sig', 'fs', 'f_range', 'center', 'method', 'thr', 'bk', 'family', 'thr_order', 'thr_shorthand') if k in case}
    xlim = case.get('xlim')
    xlim = tuple(xlim) if xlim is not None else None
    if driver == 'cyclepoints_df':
        run_cyclepoints_df(sh, tab, xlim, case['plot_extrema'], case['plot_zerox'], case.get('plot_sig', True), driver)
    elif driver == 'summary':
        run_summary(sh, tab, xlim, case['plot_only_result'], case['interp'], case.get('api', 'func'), driver)
    elif driver == 'param_direct':
        run_param_direct(sh, tab, xlim, case['interp'], driver)
    elif driver == 'cyclepoints_array':
        tab = dict(sig=case['sig'], fs=case['fs'], f_range=tuple(case['f_range']))
        for bits in range(64):
            run_cyclepoints_array(sh, tab, xlim, bits, driver)
    sh.case_done(None, True, key='replay')
