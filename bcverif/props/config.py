"""Static per-property configuration (rule texts, floors, deciding monitors)."""
from . import register

register('C08', title='minimum-run filter',
         deciding=['check_min_burst_cycles'],
         rule='exhaustive: every boolean array of length 0..N (N=12 quick, 16 thorough) x every m in 0..len+1; '
              'random: arrays up to length 2000 with geometric runs, m integer / non-integer / inf / negative. '
              'distinct = array (by index in the enumeration / by shard+iteration); non-trivial = at least two '
              'maximal True-runs of different length. Oracle: explicit run scan on a snapshot of the input.',
         floors={'quick': {'nontrivial': 1000}, 'thorough': {'nontrivial': 10000}},
         assumptions=['min_n_cycles in [0, inf] is the documented range; negative must raise ValueError'],
         quick_shards=8, thorough_shards=16)
