"""Static per-property configuration (rule texts, floors, deciding monitors)."""
from . import register

register('C08', title='minimum-run filter',
         deciding=['check_min_burst_cycles'],
         rule='exhaustive: every boolean array of length 0..N (N=12 quick, 16 thorough) x every m in 0..len+1; '
              'random: arrays up to length 2000 with geometric runs, m integer / non-integer / inf / negative. '
              'distinct = array (by index in the enumeration / by shard+iteration); non-trivial = at least two '
              'maximal True-runs of different length. Oracle: explicit run scan on a snapshot of the input.',
         floors={'quick': {'nontrivial': 1000}, 'thorough': {'nontrivial': 10000}},
         assumptions=['min_n_cycles in [0, inf] is the documented range; negative must raise ValueError'],
         quick_shards=8, thorough_shards=16)

register('C03', title='flank midpoints',
         deciding=['find_zerox'],
         rule='exhaustive: every integer signal over {-1,0,1,2} of length 2..L (L=6 quick, 8 thorough) x every '
              'alternating peak/trough index sequence (every subset of >=2 positions, both starting kinds); generated: '
              'extrema from find_extrema on all signal families. Non-trivial = a flank with >=2 crossings, a tie with the '
              'half height, or a fallback branch (all-zero, inverted, no crossing); distinct_nontrivial counts at most 50 '
              'flanks per (branch kind, shard) for the enumerated space plus each generated signal with such a flank '
              '(conservative: the enumeration contains far more).',
         floors={'quick': {'nontrivial': 200, 'classes': {'flanks:multi_even': 100, 'flanks:inverted': 100,
                                                          'flanks:allzero': 100}},
                 'thorough': {'nontrivial': 500}},
         assumptions=['tie conventions: rise crossing at i iff seg[i] <= mid < seg[i+1], decay iff seg[i] > mid >= seg[i+1]',
                      'no crossing although the flank is neither inverted nor zero: any sample of the flank accepted'],
         quick_shards=12, thorough_shards=16, thorough_timeout=7200)

register('C02', title='extrema of narrowband half-waves',
         deciding=['find_extrema'],
         rule='generated: all signal families (tie-rich quantised/clipped/plateau/zeroed and adversarial-tail families '
              'over-sampled) x fs x f_range x filter length (n_cycles | n_seconds | default) x boundary x first_extrema x pad. '
              'Oracle: independent band-pass with the documented arguments, explicit scan of the sign sequence, window '
              '[crossing, next crossing), first arg-max/min by explicit scan, un-pad, boundary, first_extrema trimming; exact '
              'comparison. Non-trivial = >=3 extrema of each kind and >=1 window whose extremum is not the window centre; '
              'distinct by SHA-1 of the materialised case.',
         floors={'quick': {'nontrivial': 100, 'classes': {'windows_with_ties': 20, 'first_extrema=None': 20,
                                                          'first_extrema=peak': 20, 'first_extrema=trough': 20}},
                 'thorough': {'nontrivial': 5000}},
         assumptions=['neurodsp.filt.filter_signal(sig padded by ceil(filt_len/2) zeros, remove_edges=False, **filter_kwargs) '
                      'is the definition of the band-pass-filtered signal',
                      'half-wave window = [crossing sample, next crossing sample); exactly-zero band-passed samples: either '
                      'consistent sign convention accepted'],
         quick_shards=8, thorough_shards=16)

PIPE_ASSUME = ['neurodsp filter_signal / amp_by_time / detect_bursts_dual_threshold are the definitions of band-pass, '
               'analytic amplitude and dual-threshold detector',
               'domain: signal longer than the FIR filter and >= 3 full oscillations (>= 4 peaks and >= 4 troughs of the '
               'peak-first half-wave reference after boundary trimming)']

register('C01', title='cycle table segmentation',
         deciding=['compute_features', 'compute_shape_features'],
         rule='generated: 13 signal families x fs x f_range x filter length (n_cycles | n_seconds | default) x boundary x pad '
              'x centre x burst method (with min_n_cycles routing) x return_samples, functional API and Bycycle.fit. Oracle: '
              'row-wise order / inclusive midpoint / bounds / tiling clauses, and table == the peak-first alternating extrema '
              'sequence of the independent half-wave reference (row count = cycles); an exception inside the domain is a '
              'violation. Non-trivial = table with >= 3 rows and the signal is not a noiseless sine; distinct by SHA-1 of the '
              'materialised case.',
         floors={'quick': {'nontrivial': 100, 'classes': {'tables_vs_reference': 100}}, 'thorough': {'nontrivial': 5000}},
         assumptions=PIPE_ASSUME, quick_shards=8, thorough_shards=16)
