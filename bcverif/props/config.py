"""Static per-property configuration (rule texts, floors, deciding monitors)."""
from . import register

register('C08', title='minimum-run filter',
         deciding=['check_min_burst_cycles'],
         rule='exhaustive: every boolean array of length 0..N (N=12 quick, 18 thorough) x every m in 0..len+1; '
              'random: arrays up to length 2000 with geometric runs, m integer / non-integer / inf / negative; memory layouts: contiguous, every-other-element view, reversed view, column of a 2-D array (all for length <= 8, one rotating beyond). '
              'distinct = array (by index in the enumeration / by shard+iteration); non-trivial = at least two '
              'maximal True-runs of different length. Oracle: explicit run scan on a snapshot of the input.',
         floors={'quick': {'nontrivial': 1000, 'classes': {'layout=strided': 8000, 'layout=reversed': 8000, 'layout=column': 8000}},
                 'thorough': {'nontrivial': 10000}},
         assumptions=['min_n_cycles in [0, inf] is the documented range; negative must raise ValueError'],
         quick_shards=8, thorough_shards=16)

register('C03', title='flank midpoints',
         deciding=['find_zerox'],
         rule='exhaustive: every integer signal over {-1,0,1,2} of length 2..L (L=6 quick, 8 thorough) x every '
              'alternating peak/trough index sequence (every subset of >=2 positions, both starting kinds); generated: '
              'extrema from find_extrema on all signal families (narrow integer sample types included); memory layout of the signal rotating over contiguous / strided / read-only / reversed view. Non-trivial = a flank with >=2 crossings, a tie with the '
              'half height, or a fallback branch (all-zero, inverted, no crossing); distinct_nontrivial counts at most 50 '
              'flanks per (branch kind, shard) for the enumerated space plus each generated signal with such a flank '
              '(conservative: the enumeration contains far more).',
         floors={'quick': {'nontrivial': 200, 'classes': {'flanks:multi_even': 100, 'flanks:inverted': 100,
                                                          'flanks:allzero': 100, 'sig_view=strided': 20000, 'sig_view=readonly': 20000, 'sig_view=reversed': 20000}},
                 'thorough': {'nontrivial': 500}},
         assumptions=['tie conventions: rise crossing at i iff seg[i] <= mid < seg[i+1], decay iff seg[i] > mid >= seg[i+1]',
                      'no crossing although the flank is neither inverted nor zero: any sample of the flank accepted'],
         quick_shards=12, thorough_shards=16, thorough_timeout=7200)

register('C02', title='extrema of narrowband half-waves',
         deciding=['find_extrema'],
         rule='generated: all signal families (tie-rich quantised/clipped/plateau/zeroed and adversarial-tail families '
              'over-sampled; 12 % as int16 / uint16 / int8 / uint8 counts that saturate at the rails of the type) x memory layout (contiguous / strided / read-only / reversed view) x fs x f_range x filter length (n_cycles | n_seconds | default) x boundary x first_extrema x pad; in 60 % of the cases an earlier call on the same signal and band with a much shorter / longer filter precedes the observed one. '
              'Oracle: independent band-pass with the documented arguments, explicit scan of the sign sequence, window '
              '[crossing, next crossing), first arg-max/min by explicit scan, un-pad, boundary, first_extrema trimming; exact '
              'comparison. Non-trivial = >=3 extrema of each kind and >=1 window whose extremum is not the window centre; '
              'distinct by SHA-1 of the materialised case.',
         floors={'quick': {'nontrivial': 100, 'classes': {'windows_with_ties': 20, 'first_extrema=None': 20,
                                                          'first_extrema=peak': 20, 'first_extrema=trough': 20,
                                                          'sig_view=strided': 14, 'sig_view=readonly': 14, 'sig_view=reversed': 14, 'narrow_integer_samples': 8}},
                 'thorough': {'nontrivial': 5000}},
         assumptions=['neurodsp.filt.filter_signal(sig padded by ceil(filt_len/2) zeros, remove_edges=False, **filter_kwargs) '
                      'is the definition of the band-pass-filtered signal',
                      'half-wave window = [crossing sample, next crossing sample); exactly-zero band-passed samples: either '
                      'consistent sign convention accepted'],
         quick_shards=8, thorough_shards=16)

PIPE_ASSUME = ['integer-typed samples denote real numbers: the reference models compute in float64 (monitors.real)',
               'domain of C01: >= 4 closed half-waves of each kind in the band-passed signal (three full oscillations) and, after the requested boundary, at least one complete cycle',
               'neurodsp filter_signal / amp_by_time / detect_bursts_dual_threshold are the definitions of band-pass, '
               'analytic amplitude and dual-threshold detector',
               'domain: signal longer than every FIR filter the call designs']

register('C01', title='cycle table segmentation',
         deciding=['compute_features', 'compute_shape_features'],
         rule='generated: 13 signal families x fs x f_range x filter length (n_cycles | n_seconds | default) x boundary x pad '
              'x centre x burst method (with min_n_cycles routing; stale fs / f_range keys inside burst_kwargs) x return_samples x sample type (float64; int64 counts; int8 / uint8 / int16 / uint16 / int32 counts whose swing is 0.3 / 0.8 / 1.2 of the type\'s range) x memory layout (contiguous, strided view, read-only), functional API and Bycycle.fit (also after an earlier fit of the same array object with another centring or other buffer content); numeric arguments as Python floats / ints or NumPy scalars, f_range as tuple or list; sampling rates with a fractional part; second calls that share the option dicts - unchanged, or after the caller switched the kind of filter length (seconds <-> cycles) in its own dict. Oracle: '
              'row-wise order / inclusive midpoint / bounds / tiling clauses, and table == the peak-first alternating extrema '
              'sequence of the independent half-wave reference (row count = cycles); an exception inside the domain is a '
              'violation. Non-trivial = table with >= 3 rows and the signal is not a noiseless sine; distinct by SHA-1 of the '
              'materialised case.',
         floors={'quick': {'nontrivial': 100, 'classes': {'tables_vs_reference': 100,
                                                          'filter_length_kind_switched_between_calls': 5, 'reused_option_dicts': 5}},
                 'thorough': {'nontrivial': 5000}},
         assumptions=PIPE_ASSUME, quick_shards=8, thorough_shards=16)

register('C04', title='shape features = definitions',
         deciding=['compute_shape_features', 'compute_features'],
         rule='generated: C01 workload (asymmetric / noisy families over-sampled, sample columns mostly on) plus direct '
              'compute_shape_features calls with n_cycles in {2,3,5}. Oracle: per row, every shape cell recomputed by a loop '
              'reference from the row\'s own cyclepoints and the ORIGINAL signal (integers/voltages exact, the two fractions '
              'within a few ulp), range clauses, band_amp = mean of an independent amp_by_time over [last, next). Non-trivial = '
              'table with >= 3 rows and >= 1 row with time_rise != time_decay; distinct by SHA-1 of the case.',
         floors={'quick': {'nontrivial': 100, 'classes': {'band_amp_rows': 1000, 'tables:trough': 50, 'tables:peak': 50}},
                 'thorough': {'nontrivial': 5000}},
         assumptions=PIPE_ASSUME + ['band_amp filter length = the n_cycles argument of compute_shape_features (3 through compute_features)'],
         quick_shards=8, thorough_shards=16)

register('C05', title='burst features = definitions',
         deciding=['compute_amp_fraction', 'compute_amp_consistency', 'compute_period_consistency', 'compute_monotonicity'],
         rule='generated: consistency-method workload with tie-rich quantised / clipped / plateau families over-sampled, both '
              'centrings; directions both/next/last by direct calls on the shape table. Oracle: loop references (average rank by '
              'counting, centring-dependent flank pairing, strict-step fractions over inclusive windows), a few ulp tolerance, '
              'range clause when the flank voltages are positive; zero denominators are skipped and counted. Non-trivial = '
              'table with >= 5 rows and a rank tie or a non-monotone step.',
         floors={'quick': {'nontrivial': 100, 'classes': {'tables_with_rank_ties': 20, 'amp_consistency:trough:next': 20,
                                                          'amp_consistency:peak:last': 20}},
                 'thorough': {'nontrivial': 5000}},
         assumptions=PIPE_ASSUME, quick_shards=8, thorough_shards=16)

register('C06', title='consistency burst labels',
         deciding=['detect_bursts_cycles'],
         rule='synthetic adversarial tables (four feature columns with values in {0, t-eps, t, t+eps, 1, NaN}, 0..27 rows, all '
              'min_n_cycles 0..n+1 incl. non-integer, thresholds partly defaulted); every qualifying pattern of length <= 8 '
              '(11 thorough) x every m (exhaustive); tables from generated signals with thresholds equal to table cells; for each '
              'table two raised threshold vectors (labels must be nested); row labels of the table: default range / offset range / gaps / reversed / strings (a stretch or selection of a longer table). Oracle: explicit scan, q = all four strictly above, '
              'first/last never, maximal runs >= m kept. Non-trivial = >= 1 True and >= 1 False label and >= 1 cell exactly on a '
              'threshold or NaN; distinct by SHA-1 of the table + thresholds.',
         floors={'quick': {'nontrivial': 150, 'classes': {'cells_equal_threshold': 1000, 'nan_cells': 200, 'routing_tables': 50,
                                                          'monotone_pairs': 500, 'table_index=offset': 60, 'table_index=gaps': 60,
                                                          'table_index=reversed': 50, 'table_index=strings': 50}},
                 'thorough': {'nontrivial': 5000}},
         assumptions=['documented defaults for missing threshold keys: 0, .5, .5, .8, min_n_cycles 3'],
         quick_shards=8, thorough_shards=16)

register('C07', title='amplitude burst labels',
         deciding=['compute_burst_fraction', 'detect_bursts_amp', 'compute_features'],
         rule='generated: amplitude-method workload on bursty families (burst on/offsets inside cycles), both centrings, '
              'amp_threshes, burst_fraction_threshold in {0,.3,.5,.8,1,default}, the 4 routing cases of min_n_cycles, '
              'min_burst_duration and filter_kwargs sometimes; plus synthetic burst_fraction columns with values on the threshold. '
              'Oracle: independent run of the dual-threshold detector with the documented arguments (the call\'s own fs / f_range, whatever stale keys the burst options carry) -> inclusive-window fraction, compared EXACTLY (count / n has one nearest float) -> '
              '>= threshold -> run filter with the documented count. Non-trivial = >= 1 cycle with 0 < fraction < 1 and both label '
              'values present (pipeline) / a value exactly on the threshold and both labels present (synthetic).',
         floors={'quick': {'nontrivial': 60, 'classes': {'routing_nontrivial': 15, 'tables_with_partial_cycles': 50,
                                                         'routing:bk': 10, 'routing:thr': 10, 'routing:bkthr': 10,
                                                         'routing:default': 10}},
                 'thorough': {'nontrivial': 3000}},
         assumptions=PIPE_ASSUME + ['with min_burst_duration given the sample-wise detector works by duration (min_n_cycles=None) '
                                    'while the run filter still uses the cycle count'],
         quick_shards=8, thorough_shards=16)

register('C09', title='peak/trough mirror',
         deciding=['compute_features'],
         rule='metamorphic pairs: compute_features(sig, trough) vs the rename / negate / 1-x image of compute_features(-sig, peak), '
              'all families and options, both burst methods; integers and labels exact, voltages exact, fractions within a few ulp; the '
              'definitional oracles of C04/C05/C07 run on both members. Non-trivial = not a noiseless sine, >= 5 rows and >= 1 burst '
              'label change between neighbouring cycles; distinct by SHA-1 of the case.',
         floors={'quick': {'nontrivial': 40, 'classes': {'pairs_compared:cycles': 40, 'pairs_compared:amp': 40}},
                 'thorough': {'nontrivial': 2000}},
         assumptions=PIPE_ASSUME, quick_shards=8, thorough_shards=16)

register('C10', title='amplitude / rate covariance',
         deciding=['compute_features'],
         rule='metamorphic triples: base run, signal x a (a = 2^k, k in -10..10 for half of the cases, -60..60 for the rest), fs and band x c (c in {1/4,1/2,2,4}, filter length in '
              'cycles, no durations in seconds), option dictionaries either fresh per run or the SAME objects for the three runs; exact comparison (voltages x a exactly; band_amp within 1e-12). Non-trivial = >= 5 rows '
              'and >= 1 burst cycle in the base run; distinct by SHA-1 of the case.',
         floors={'quick': {'nontrivial': 50, 'classes': {'compared:amplitude': 100, 'compared:rate': 100, 'a=2^[<-26]': 10, 'a=2^[>26]': 10,
                                                         'options=shared_objects': 15}},
                 'thorough': {'nontrivial': 2000}},
         assumptions=PIPE_ASSUME + ['powers of two commute exactly with IEEE arithmetic (no under/overflow in the generated range)'],
         quick_shards=8, thorough_shards=16)

register('C11', title='2-D group = per-signal, in order',
         deciding=['pool_worker_events'],
         rule='pool runs of compute_features_2d(axis=0) / BycycleGroup.fit on 2-12 pairwise different rows with shared dict / None / '
              'per-row option lists (centrings, methods, thresholds, ignored return_samples keys; for the object either through the constructor or assigned to its public attributes before the first fit / after a fit with the defaults), n_jobs in {1,2,3,n,n+3,-1}, progress '
              'in {None, tqdm, tqdm.notebook}; completion order chosen by per-row delays injected inside the workers (all 24 orders for '
              'n=4 [quick: a subset], all 120 for n=5 in the thorough tier). Oracle: position i == real compute_features on row i with '
              'options i (exact table equality); offline check of the worker event log: every row analysed exactly once with its own '
              'options; observed completion permutations recorded. Non-trivial = pool run with >= 2 rows whose worker events were '
              'observed; distinct by SHA-1 of the case.',
         floors={'quick': {'nontrivial': 20, 'classes': {'runs_completing_out_of_submission_order': 8, 'worker_events': 60,
                                                         'options_set_as_attributes:before_first_fit': 2, 'options_set_as_attributes:after_a_fit': 2,
                                                         'option_list_with_one_object_at_several_positions': 1, 'second_call_with_the_same_option_objects': 2}},
                 'thorough': {'nontrivial': 200, 'classes': {'runs_completing_out_of_submission_order': 100}}},
         assumptions=['the per-signal analysis itself is decided by C01-C07', 'delays are sleeps before the analysis inside a worker; '
                      'workers share no state'],
         quick_shards=8, thorough_shards=16)

register('C13', title='epoched analysis partitions the flattened analysis',
         deciding=['epoch_df', 'compute_features_2d_axis_none'],
         rule='generated: 2-8 epochs, epoch length from half a period to ten periods (empty and many-cycle epochs), epoch-aligned '
              'signals whose extrema fall exactly on multiples of the epoch length, both centrings and methods, single dict / None / '
              'per-epoch lists with different thresholds, in 40 % of the function cases a second call with the same option objects is the one checked. Oracle (offline, on the returned list): concatenation with indices shifted '
              'back == the flattened compute_features table row for row, each row in the epoch containing its closing extremum (exact '
              'coincidence with a boundary: either adjacent epoch), feature values unchanged; single option set: labels == '
              'flattened labels; per-epoch list: labels == C06/C07 reference rule on that epoch\'s table with that epoch\'s thresholds. '
              'Non-trivial = >= 2 non-empty epochs and >= 1 cycle straddling an epoch boundary.',
         floors={'quick': {'nontrivial': 100, 'classes': {'empty_epochs': 10, 'boundary_coincidences': 20, 'per_epoch_list': 40,
                                                          'single_option_set': 40,
                                                          'second_call_with_the_same_option_objects:list': 8,
                                                          'second_call_with_the_same_option_objects:dict': 8,
                                                          'option_list_with_one_object_at_several_positions': 7}},
                 'thorough': {'nontrivial': 5000}},
         assumptions=['the flattened analysis itself is decided by C01-C07'],
         quick_shards=8, thorough_shards=16)

register('C12', title='3-D group placement',
         deciding=['pool_worker_events'],
         rule='pool runs of compute_features_3d / BycycleGroup.fit on arrays of shape (n0, n1, samples), n0,n1 in 1..4 (every (shape, axis) '
              'cell visited across shards/seeds), pairwise different signals, axis in {0, 1, (0,1)}, options shared dict / None / 1-D list / '
              '2-D list, n_jobs in {1,2,-1}, completion order perturbed by injected delays. Oracle: entry [i][j] == the real per-signal '
              '(axis=(0,1)) or per-slice flattened-epoch (axis 0/1) analysis with the options of that position (exact table equality); a '
              'table found elsewhere is reported with both positions; event log: every slice analysed exactly once. Non-trivial = n0 != n1 '
              'or both > 1; distinct by SHA-1 of the case.',
         floors={'quick': {'nontrivial': 15, 'classes': {'cell:axis=(0, 1):kwargs=2d': 1, 'distinct_2d_option_grid_on_unequal_extents': 1, 'option_list_with_one_object_at_several_positions': 1,
                                                         'second_call_with_the_same_option_objects': 1}}, 'thorough': {'nontrivial': 300}},
         assumptions=['per-signal / per-slice analyses are decided by C01-C07 and C13',
                      '2-D option list of matching shape with axis 0 or 1: ValueError or slice-wise (position-wise) pairing are both accepted'],
         quick_shards=8, thorough_shards=16)

register('C19', title='invalid settings rejected',
         deciding=['decision_table_probe', 'check_kwargs_shape'],
         rule='exhaustive grid: array shapes (2-D with 1-3 rows; 3-D with 1-3 x 1-3) x axis in {0, 1, (0,1), None, 2, -1, "x", [0,1]} x '
              'option structure in {None, dict, 1-D lists of length 1-3, 2-D lists 1-3 x 1-3, a 3-D list} evaluated at compute_features_2d/_3d '
              'with tiny signals and (for lists) at check_kwargs_shape; plus every documented parameter at / just inside / just outside its '
              'range at each public entry point that takes it (fs, thresholds, min_n_cycles, amp_threshes, centre, method, first_extrema, '
              'direction, axis, progress, dimensionality, plot-before-fit). Oracle: a decision table written from the docstrings; observed '
              'outcome in {returned, ValueError, other exception}. Every cell / probe is a distinct case.',
         floors={'quick': {'nontrivial': 1500, 'classes': {'accept:accepted': 150, 'reject:rejected': 1200}},
                 'thorough': {'nontrivial': 1500}},
         assumptions=['3-D array, axis 0 or 1, 2-D list of exactly matching shape: reject or position-wise pairing both accepted',
                      'fs = 0 must raise ValueError in whatever layer', 'equal amplitude thresholds: either outcome'],
         quick_shards=8, thorough_shards=16)

register('C14', title='objects = functional API, no stale state',
         deciding=['history_fit_compared'],
         rule='random histories of length 2-10 over {fit(sig_k), recompute_edges(r), load, edit a threshold, edit min_n_cycles, edit / delete '
              'burst options, set centre, in-place edit of a fitted array} on one Bycycle object with 2-4 signals (the same array objects are '
              're-used across the fits of a history), both methods and centrings, shorthand and full threshold '
              'names; every history of length <= 3 (4 thorough) over a reduced alphabet, both methods (exhaustive); BycycleGroup 2-D / 3-D fits (all axis modes, unequal extents), then BycycleGroup.recompute_edges(r): every model must hold the functional recomputation of its own fitted table; refits on arrays of another shape; in half of the group cases a threshold is edited in place on the group between fit and recompute_edges (the recomputation uses the current thresholds). '
              'Oracle: an executable model keeps the user\'s view of the settings (deep copies of what was passed / assigned); after every fit '
              'the table must equal that of a freshly constructed object with those settings and that of compute_features (expanded names); '
              'attribute access == columns; recompute_edges(r) == functional recompute_edges with thresholds lowered by r; models mirror '
              'df_features / sigs. Non-trivial = history with >= 2 successful fits separated by an edit, load or edge recomputation.',
         floors={'quick': {'nontrivial': 30, 'classes': {'op:recompute': 50, 'op:load': 50, 'op:edit_bk': 30,
                                                         'group_3d_unequal_extents_with_recompute_edges': 4}},
                 'thorough': {'nontrivial': 5000}},
         assumptions=['"current settings" = the user\'s view: constructor arguments and later assignments, not what the pipeline wrote into the object\'s dicts',
                      'after BycycleGroup.recompute_edges the statement is not asserted for df_features vs models (only after fit)'],
         quick_shards=8, thorough_shards=16)

register('C15', title='purity of the analysis functions',
         deciding=['purity', 'history_independence'],
         rule='random call sequences (2-6 calls) over 22 kinds of public calls (three of them on a stretch of the table that the caller cut out once with limit_df(reset_indices=False) and keeps: own row labels, absolute sample indices, all rows inside one epoch) that SHARE argument objects (signal, threshold / burst / '
              'find_extrema dicts, option lists, the cycle table, cyclepoint arrays), both burst methods (amplitude twice as often), 30% with '
              'read-only signal arrays. Monitors: an argument-fingerprint wrapper on 30 public functions compares every argument before and after '
              'each call (return or raise; nested calls included); each call is then repeated on pristine deep copies and must give the identical '
              'result. Non-trivial = sequence with >= 2 calls sharing >= 1 mutable argument; distinct by SHA-1 of the case.',
         floors={'quick': {'nontrivial': 50, 'classes': {'fingerprinted:compute_features': 100, 'fingerprinted:compute_burst_features': 30,
                                                         'fingerprinted:recompute_edges': 5, 'fingerprinted:compute_features_2d': 10,
                                                         'fingerprinted:limit_df': 5, 'fingerprinted:epoch_df': 5}},
                 'thorough': {'nontrivial': 3000}},
         assumptions=['functions documented to work on their argument (detect_bursts_*, split_samples_df, check_min_burst_cycles, flatten_dfs) '
                      'are not in the statement and are not monitored; matplotlib axes passed to a plot are not caller data'],
         quick_shards=8, thorough_shards=16, thorough_timeout=7200)

register('C16', title='edge recomputation',
         deciding=['recompute_edges'],
         rule='generated: tables from consistency detection on bursty / noisy families, both centrings, threshold settings x reductions '
              '{0, .05, .1, .2}, functional (tables with default or their own row labels) and Bycycle.recompute_edges (in half of the object cases a second recomputation on the same object, which must equal the functional recomputation of the held table with thresholds - r); BycycleGroup.recompute_edges. Monitor (snapshot + post-condition): input table untouched and a new '
              'object returned; only amp_consistency / period_consistency / is_burst may differ; non-edge cycles unchanged; each cycle adjacent '
              'to a maximal True-run of the INPUT labels holds the one-sided (next / last) reference values looking into the burst; labels == '
              'threshold-and-run reference on the edited table; with reduction 0 no burst cycle is lost. pandas chained-assignment warnings '
              '(dropped writes) are captured and attached to the witness. Non-trivial = >= 1 burst with an edge cycle whose one-sided value '
              'differs from its two-sided value.',
         floors={'quick': {'nontrivial': 50, 'classes': {'edges': 300, 'informative_edges': 100, 'table_with_its_own_row_labels': 8}}, 'thorough': {'nontrivial': 2000}},
         assumptions=['edge cycle that is the first / last row of the table: unchanged NaN or the one-sided value accepted; a cycle between '
                      'two bursts: either direction accepted'],
         quick_shards=8, thorough_shards=16)

register('C17', title='interpolated phase',
         deciding=['extrema_interpolated_phase'],
         rule='exhaustive: every placement of an alternating extremum sequence (both starting kinds, >= 2 extrema, gaps >= 2) on arrays of '
              'length 3..N (N=13 quick, 17 thorough), without midpoints, with every admissible midpoint position per flank and with only the rises / only the decays of each such assignment (inclusive of the '
              'flank ends; completely while the product of choices <= 64 / 1024, otherwise all-first / all-middle / all-last - counted), and cyclepoint sets that BEGIN and / or END with a midpoint '
              '(a rise before a leading peak / decay before a leading trough, a decay after a final peak / rise after a final trough) at every position before the first / after the last extremum; '
              'generated: cyclepoints from find_extrema / find_zerox on all families (adversarial tails over-sampled), boundary in {0,1,5}, all '
              'first_extrema values, with and without midpoints. Oracle: the clauses of the statement evaluated on the returned array (length, '
              'finite exactly on [first, last cyclepoint], |phase| <= pi, anchors 0 / +-pi / -+pi/2, no decrease except into/out of a trough). '
              'Non-trivial = >= 2 peaks and >= 2 troughs.',
         floors={'quick': {'nontrivial': 500, 'classes': {'last_cyclepoint=t:to_end=0': 100, 'last_cyclepoint=p:to_end=1': 100,
                                                          'midpoint_coincides_with_extremum': 100,
                                                          'leading_midpoint:gap=1': 500, 'trailing_midpoint:gap=1': 500}},
                 'thorough': {'nontrivial': 5000}},
         assumptions=['cyclepoint sets with two extrema closer than 2 samples, non-alternating extrema, or a midpoint on a flank it does not belong to are '
                      'outside the quantifier (counted, skipped); one leading and one trailing midpoint of the matching kind belong to it'],
         quick_shards=8, thorough_shards=16, thorough_timeout=7200)

register('C18', title='windowing utilities',
         deciding=['limit_df', 'limit_signal', 'drop_samples_df', 'split_samples_df', 'flatten_dfs'],
         rule='generated: cycle tables of both centrings and methods (with and without burst columns) x windows {random, exactly on cycle '
              'boundaries, a window opened / closed on EVERY cycle boundary of the table (limit = k / fs, the time of that sample), start None, stop None, both None, window containing no cycle} x reset_indices; limit_signal on the matching time '
              'axis; split / drop on every table; flatten_dfs on 1-D and 2-D lists of epoch tables with list / array labels and custom column '
              'name. Monitors (snapshot + post-condition): ordered row subset, inside cycles kept / outside cycles dropped (closed interval, decided in rational arithmetic; a boundary that '
              'coincides with a limit only up to rounding, |d| <= 1e-6 samples: either - except when the limit IS the float time k / fs of the boundary sample, which is a coincidence), feature values unchanged, ALL sample_* columns shifted by one common offset (0 without reset), '
              'no exception for None limits or trough-centred tables; limit_signal == samples with start <= t < stop; column partition and '
              'value equality; row provenance by a marker column: each row carries the label of its table. Non-trivial (limit) = window that '
              'keeps >= 1 cycle and cuts >= 1.',
         floors={'quick': {'nontrivial': 100, 'classes': {'limit_df_window_cuts_and_keeps': 50, 'limit_df_boundary_coincidence_exact': 20,
                                                          'limit_df_window_without_cycle': 20, 'flatten:1d': 10, 'flatten:2d': 10,
                                                          'limit_df_boundary_coincidence_on_time_axis': 1500,
                                                          'limit_df_boundary_where_fs_times_t_does_not_round_back': 15,
                                                          'table_with_its_own_row_labels': 6, 'limit_signal_limit_on_an_end_of_the_axis': 700}},
                 'thorough': {'nontrivial': 5000}},
         assumptions=['the common offset\'s value is recorded, only its uniformity is asserted (that is what the statement says)'],
         quick_shards=8, thorough_shards=16)

register('C20', title='plots draw the analysis',
         deciding=['figure_inspected'],
         rule='generated: cycle tables of both centrings and both methods at fs in {100,128,250,500,1000,1024,2000,44100} (float-unfriendly '
              'lengths included) x x-limits {None, random on the sample grid, starting on a sample k whose time multiplies back to just below k, starting exactly on a side extremum, ending exactly on / one '
              'past a side extremum, window without a complete cycle} (limits k/fs only for k with k/fs == k*(1/fs)) x plot_only_result x '
              'interp x the cyclepoint-kind switches; plot_cyclepoints_df, plot_cyclepoints_array (all first_extrema values), '
              'plot_burst_detect_summary and Bycycle.plot (threshold dicts with the keys in the caller\'s own order, min_n_cycles anywhere; shorthand threshold names for the object). Oracle (artist inspector under Agg): every marker at a sample time, on a genuine '
              'cyclepoint of its series (drawing order), y == the plotted trace at that sample, every cyclepoint strictly inside the plotted '
              'view drawn; highlighted samples (unmasked part of the burst line) subset of burst cycles and superset of every burst cycle '
              'inside the view; panel points == (centre, value) of cycles [steps: (last side, next side, value)], every cycle lying entirely inside '
              'the view shown, threshold line at the threshold given FOR THE PARAMETER THE PANEL SHOWS (read from its label, not its position), one panel per threshold; an exception is a violation. Non-trivial (summary) = view cuts >= 1 '
              'cycle and contains >= 1 burst and >= 1 non-burst cycle.',
         floors={'quick': {'nontrivial': 15, 'classes': {'markers_checked': 2000, 'panels_checked': 100, 'threshold_keys_in_another_order': 20,
                                                         'threshold_shorthand_names': 4}}, 'thorough': {'nontrivial': 1000}},
         assumptions=['the view is what is actually plotted: the samples of the trace line', 'series identity by drawing order, not colour'],
         quick_shards=8, thorough_shards=16)


# ------------------------------------------------------------------------------------------------
# technique / level texts used by tools/gen_manifest.py

from . import CONFIG  # noqa: E402

_TECH = {
    'C01': 'runtime monitoring: post-conditions on compute_features / compute_shape_features (row order, tiling, bounds) + independent half-wave reference for "one row per cycle"; totality via a domain predicate; generated workload',
    'C02': 'runtime monitoring: post-condition on find_extrema against an independently band-passed half-wave reference (explicit scans); recorder on filter_signal localises; generated workload',
    'C03': 'runtime monitoring: icontract post-condition on find_zerox against a loop reference; exhaustive small scope (all integer signals x all alternating index sequences) + generated extrema',
    'C04': 'runtime monitoring: post-conditions on compute_shape_features / compute_features recomputing every shape cell from the row\'s cyclepoints and the original signal; independent amp_by_time for band_amp',
    'C05': 'runtime monitoring: post-conditions on the four burst-feature functions against loop references (average rank by counting, centring-dependent pairing, strict steps); all directions',
    'C06': 'runtime monitoring: post-condition on detect_bursts_cycles and routing post-condition on compute_features against an explicit threshold-and-run scan; adversarial synthetic tables, exhaustive small patterns, nested-label (monotonicity) pairs',
    'C07': 'runtime monitoring: post-conditions on compute_burst_fraction / detect_bursts_amp / compute_features(amp) against an independent run of the dual-threshold detector with the documented arguments; recorder on the detector shows the count it received',
    'C08': 'runtime monitoring: icontract snapshot + post-condition on check_min_burst_cycles against an explicit run scan; exhaustive over all boolean arrays up to a length bound x all m, random long arrays, idempotence by a second monitored call',
    'C09': 'runtime monitoring (metamorphic pairs): trough-centred run vs renamed / negated / 1-x image of the peak-centred run on the negated signal, cell-wise; definitional oracles of C04/C05/C07 active on both members',
    'C10': 'runtime monitoring (metamorphic triples): base run vs signal x 2^k vs fs and band x c, exact cell-wise comparison; recorder shows equal sign sequences of the band-passed signals',
    'C11': 'runtime monitoring of the process pool: worker-side recorder with injected per-row delays (chosen completion orders), start/finish event log, offline checker (exactly-once, own options, observed permutations) + positional comparison with the real per-signal analysis',
    'C12': 'runtime monitoring of the process pool: worker-side recorder with injected delays on 2-D slices / signals, event log, offline placement checker ([i][j] vs the real per-signal / per-slice analysis; misplaced tables reported with both positions)',
    'C13': 'runtime monitoring: offline partition checker over the returned epoch tables (conservation: every cycle of the flattened analysis exactly once, in order, in the epoch of its closing extremum, values unchanged, indices shifted) + label rules per option mode',
    'C14': 'runtime monitoring of call histories with an executable model (shadow of the user\'s settings): after every fit compare with a fresh object and the functional API; recompute_edges vs functional; attribute access; random + exhaustive short histories',
    'C15': 'runtime monitoring: argument-fingerprint (write sanitizer) wrapper on 30 public functions comparing every argument before / after each call, read-only input arrays, and replay of each call on pristine copies (history independence)',
    'C16': 'runtime monitoring: icontract snapshot + post-condition on recompute_edges (input untouched, only edge cycles\' consistencies changed to the one-sided reference values, labels = rule on the edited table, bursts only grow); pandas chained-assignment warnings captured as lost-write evidence',
    'C17': 'runtime monitoring: icontract post-condition on extrema_interpolated_phase evaluating the statement\'s clauses on the returned array; exhaustive small scope (all alternating placements with midpoints) + generated cyclepoints',
    'C18': 'runtime monitoring: snapshot + post-conditions on limit_df / limit_signal / split_samples_df / drop_samples_df and a provenance-marker checker for flatten_dfs; boundary coincidences decided in rational arithmetic',
    'C19': 'runtime monitoring of outcomes {returned, ValueError, other} against a decision table written from the docstrings: exhaustive shape x axis x option-structure grid at the group entry points and the checker, parameter probes at / inside / outside each range; call-count monitor on check_kwargs_shape',
    'C20': 'runtime monitoring: artist inspector over the matplotlib objects produced under Agg (marker series in drawing order, masked highlight line, parameter panels, threshold lines) against the table and signal that were plotted',
}
for _p, _t in _TECH.items():
    if _p in CONFIG:
        CONFIG[_p]['technique'] = _t
        CONFIG[_p]['level_text'] = ('Exploration by runtime monitoring: the property held on every monitored execution of the real code that '
                                    'this workload produced (' + CONFIG[_p]['title'] + '); the evidence file lists evaluations per monitor, input classes, '
                                    'enumerated sub-spaces and what made a case non-trivial. Nothing is claimed about inputs, option cells, histories or '
                                    'schedules the workload did not drive; below the floors the run reports INCONCLUSIVE instead of held.')


# ------------------------------------------------------------------------------------------------
# floors re-calibrated by tools/floor_audit.py (quick tier, seeds 0-7): a floor is at most a quarter of the smallest value
# observed over the seeds, so that random variation cannot turn a run on an unchanged tree into INCONCLUSIVE

_QUICK_FLOOR_OVERRIDES = {
    "C01": {
        "nontrivial": 91
    },
    "C02": {
        "nontrivial": 97
    },
    "C04": {
        "nontrivial": 96
    },
    "C05": {
        "amp_consistency:peak:last": 17,
        "amp_consistency:trough:next": 19,
        "nontrivial": 61
    },
    "C06": {
        "nontrivial": 53
    },
    "C07": {
        "nontrivial": 59,
        "routing_nontrivial": 13,
        "tables_with_partial_cycles": 17
    },
    "C09": {
        "nontrivial": 15,
        "pairs_compared:amp": 28,
        "pairs_compared:cycles": 26
    },
    "C10": {
        "a=2^[<-26]": 5,
        "a=2^[>26]": 3,
        "compared:amplitude": 43,
        "compared:rate": 42,
        "nontrivial": 15
    },
    "C11": {
        "nontrivial": 11,
        "worker_events": 51
    },
    "C12": {
        "cell:axis=(0, 1):kwargs=2d": 2,
        "nontrivial": 6
    },
    "C13": {
        "nontrivial": 73,
        "per_epoch_list": 25,
        "single_option_set": 28
    },
    "C14": {
        "nontrivial": 29
    },
    "C15": {
        "fingerprinted:recompute_edges": 4,
        "nontrivial": 42
    },
    "C16": {
        "nontrivial": 34
    },
    "C17": {
        "nontrivial": 443
    },
    "C18": {
        "flatten:2d": 6
    }
}
for _p, _o in _QUICK_FLOOR_OVERRIDES.items():
    _f = CONFIG[_p].setdefault('floors', {}).setdefault('quick', {})
    for _k, _v in _o.items():
        if _k == 'nontrivial':
            _f['nontrivial'] = _v
        else:
            _f.setdefault('classes', {})[_k] = _v
CONFIG['C12']['floors']['quick']['classes']['cell:axis=(0, 1):kwargs=2d'] = 1
# classes added in response to round-14 seeded changes
for _p, _k, _v in (('C01', 'filter_options_with_defaults_written_out_as_None', 5), ('C02', 'long_recordings', 8),
                   ('C06', 'table_columns_in_another_order', 100), ('C12', 'per_slice_list_with_entries_that_omit_settings', 2),
                   ('C17', 'long_recording:in_quantifier', 1), ('C18', 'flatten:2d_own_column_name', 3),
                   # round 15
                   ('C03', 'sig_view=int_buffer', 10000), ('C03', 'sig_view=buffer', 10000),
                   ('C12', 'slices_with_rows_shorter_than_one_cycle', 4), ('C12', 'entries_for_epochs_without_cycles', 3),
                   ('C18', 'limit_signal_window_after_the_last_sample', 300), ('C18', 'flatten_one_table_object_at_two_positions', 8),
                   ('C18', 'flatten_table_that_already_has_the_label_column', 10), ('C20', 'cyclepoints_of_a_table_with_dropped_rows', 30)):
    CONFIG[_p]['floors']['quick']['classes'][_k] = _v
for _p, _t in (('C01', 'filter options with their documented default written out as None'),
               ('C02', 'long recordings (70 000 - 210 000 samples) of rhythms that are fast for their sampling rate'),
               ('C06', 'tables whose feature columns stand in another order (reversed / sorted / shuffled, further columns in between)'),
               ('C12', 'per-slice lists whose entries leave settings out (defaults apply to that slice); slices whose rows are shorter than one cycle (entries for epochs without cycles keep their place)'),
               ('C17', 'one recording of more than 2**24 samples with its cyclepoints near the end, preceded by one half cycle of more than 10**5 samples'),
               ('C18', 'custom column names with 1-D and 2-D lists; windows that begin after the last sample; one table object at two positions of the list; tables that already carry the label column'),
               ('C19', 'unknown progress values also with axis=None; unknown burst_method in per-epoch entries; invalid settings on the second use '
                       'of a fitted object / of option dicts the caller keeps'),
               ('C03', 'signals also passed through ONE buffer object per length and sample type that is refilled in place between calls '
                       '(float and integer buffers)'),
               ('C20', 'cyclepoint plots of tables with dropped rows (bursting cycles only / every other cycle)')):
    CONFIG[_p]['rule'] = CONFIG[_p]['rule'].rstrip() + '; ' + _t

# thorough tiers run at least 25x the quick workload: their floors are ten times the (calibrated) quick floors
for _p in CONFIG:
    _q = CONFIG[_p].get('floors', {}).get('quick', {})
    CONFIG[_p].setdefault('floors', {})['thorough'] = {
        'nontrivial': 10 * _q.get('nontrivial', 2) if _p not in ('C03', 'C08', 'C17', 'C19') else _q.get('nontrivial', 2),
        'classes': dict(_q.get('classes', {}))}
