"""Argument-fingerprint monitor (a write sanitizer for the purity property C15)."""
import hashlib
import inspect

import numpy as np
import pandas as pd

from . import attach
from .attach import count, violation

TARGETS = [
    ('bycycle.features.features', 'compute_features'),
    ('bycycle.features.shape', 'compute_shape_features'), ('bycycle.features.shape', 'compute_durations'),
    ('bycycle.features.shape', 'compute_extrema_voltage'), ('bycycle.features.shape', 'compute_symmetry'),
    ('bycycle.features.shape', 'compute_band_amp'),
    ('bycycle.features.burst', 'compute_burst_features'), ('bycycle.features.burst', 'compute_amp_fraction'),
    ('bycycle.features.burst', 'compute_amp_consistency'), ('bycycle.features.burst', 'compute_period_consistency'),
    ('bycycle.features.burst', 'compute_monotonicity'), ('bycycle.features.burst', 'compute_burst_fraction'),
    ('bycycle.features.cyclepoints', 'compute_cyclepoints'),
    ('bycycle.cyclepoints.extrema', 'find_extrema'), ('bycycle.cyclepoints.zerox', 'find_zerox'),
    ('bycycle.cyclepoints.zerox', 'find_flank_zerox'), ('bycycle.cyclepoints.phase', 'extrema_interpolated_phase'),
    ('bycycle.group.features', 'compute_features_2d'), ('bycycle.group.features', 'compute_features_3d'),
    ('bycycle.burst.utils', 'recompute_edges'),
    ('bycycle.utils.dataframes', 'limit_df'), ('bycycle.utils.dataframes', 'epoch_df'),
    ('bycycle.utils.dataframes', 'drop_samples_df'), ('bycycle.utils.timeseries', 'limit_signal'),
    ('bycycle.plts.burst', 'plot_burst_detect_summary'), ('bycycle.plts.burst', 'plot_burst_detect_param'),
    ('bycycle.plts.cyclepoints', 'plot_cyclepoints_df'), ('bycycle.plts.cyclepoints', 'plot_cyclepoints_array'),
    ('bycycle.plts.features', 'plot_feature_hist'), ('bycycle.plts.features', 'plot_feature_categorical'),
]


def fp(o, depth=0):
    """Fingerprint of a value: equal fingerprints <=> equal contents (key order of dicts ignored)."""
    if isinstance(o, np.ndarray):
        if o.dtype == object:
            return ('ndobj', o.shape, tuple(fp(v, depth + 1) for v in o.ravel().tolist()))
        return ('nd', o.dtype.str, o.shape, hashlib.sha1(np.ascontiguousarray(o).tobytes()).hexdigest())
    if isinstance(o, pd.DataFrame):
        cols = []
        for c in o.columns:
            v = o[c].to_numpy()
            cols.append((str(c), str(o[c].dtype), fp(v, depth + 1)))
        return ('df', tuple(cols), fp(np.asarray(o.index), depth + 1))
    if isinstance(o, pd.Series):
        return ('series', str(o.dtype), fp(o.to_numpy(), depth + 1), fp(np.asarray(o.index), depth + 1))
    if isinstance(o, dict):
        return ('dict', tuple(sorted(((repr(k), fp(v, depth + 1)) for k, v in o.items()), key=lambda kv: kv[0])))
    if isinstance(o, (list, tuple)):
        return (type(o).__name__, tuple(fp(v, depth + 1) for v in o))
    if o is None or isinstance(o, (int, float, str, bool, complex, np.generic)):
        return ('v', repr(o))
    return ('opaque', type(o).__name__)        # axes, figures ...: not the caller's data in the sense of the statement


def describe_change(before, after, path='arg'):
    """First differing key / cell between two fingerprints (human readable)."""
    if before == after:
        return None
    if before[0] != after[0]:
        return '%s: type %s -> %s' % (path, before[0], after[0])
    if before[0] == 'dict':
        b, a = dict(before[1]), dict(after[1])
        for k in sorted(set(b) | set(a)):
            if k not in b:
                return '%s: key %s added' % (path, k)
            if k not in a:
                return '%s: key %s removed' % (path, k)
            if b[k] != a[k]:
                return describe_change(b[k], a[k], '%s[%s]' % (path, k))
    if before[0] == 'df':
        bc, ac = [c[0] for c in before[1]], [c[0] for c in after[1]]
        if bc != ac:
            return '%s: columns changed (%s)' % (path, sorted(set(bc) ^ set(ac)) or 'order')
        for cb, ca in zip(before[1], after[1]):
            if cb != ca:
                return '%s: column %s changed' % (path, cb[0])
        return '%s: index changed' % path
    if before[0] in ('list', 'tuple'):
        for i, (x, y) in enumerate(zip(before[1], after[1])):
            if x != y:
                return describe_change(x, y, '%s[%d]' % (path, i))
        return '%s: length changed' % path
    return '%s: contents changed' % path


def make_monitor(fname):
    def make(orig):
        f = orig
        while hasattr(f, '__wrapped__'):
            f = f.__wrapped__
        try:
            sig = inspect.signature(f)
        except (TypeError, ValueError):
            sig = None

        def wrapper(*a, **k):
            names = {}
            if sig is not None:
                try:
                    ba = sig.bind(*a, **k)
                    for n, v in ba.arguments.items():
                        p = sig.parameters[n]
                        if p.kind is inspect.Parameter.VAR_KEYWORD:
                            for kk, vv in v.items():
                                names['**' + kk] = vv
                        elif p.kind is inspect.Parameter.VAR_POSITIONAL:
                            for i, vv in enumerate(v):
                                names['*%d' % i] = vv
                        else:
                            names[n] = v
                except TypeError:
                    names = {'arg%d' % i: v for i, v in enumerate(a)}
                    names.update(k)
            else:
                names = {'arg%d' % i: v for i, v in enumerate(a)}
                names.update(k)
            before = {n: fp(v) for n, v in names.items()}
            try:
                return orig(*a, **k)
            finally:
                count('eval:purity:' + fname)
                count('eval:purity')
                for n, v in names.items():
                    after = fp(v)
                    if after != before[n]:
                        violation('C15', 'mutated:%s:%s' % (fname, n),
                                  '%s modified its argument %s' % (fname, describe_change(before[n], after, n)))
        return wrapper
    return make


_DONE = []


def install():
    if _DONE:
        return
    _DONE.append(1)
    for mod, name in TARGETS:
        attach.attach(mod, name, make_monitor(name))
