"""Reference models: small, loop-based re-statements of the documented rules.

No pandas and no vectorised tricks shared with the code under test.  Each function states the
rule it implements; DESIGN.md section 3 ties it to the property text.
"""
import math

import numpy as np

ULP_TOL = 2.0 ** -46      # relative tolerance for ratios / fractions (a few ulp), see DESIGN 2.3


# ------------------------------------------------------------------------------------------------
# generic helpers

def same_float(a, b, tol=ULP_TOL):
    """Equality of two floats up to a few ulp; NaN equals NaN."""
    a = float(a)
    b = float(b)
    if math.isnan(a) or math.isnan(b):
        return math.isnan(a) and math.isnan(b)
    if a == b:
        return True
    return abs(a - b) <= tol * max(1.0, abs(a), abs(b))


def first_diff(a, b, exact=True, tol=ULP_TOL):
    """Index of the first differing element of two sequences (None if equal); lengths count."""
    if len(a) != len(b):
        return min(len(a), len(b))
    for i, (x, y) in enumerate(zip(a, b)):
        if exact:
            if isinstance(x, float) or isinstance(y, float) or hasattr(x, 'dtype'):
                xf, yf = float(x), float(y)
                if not (xf == yf or (math.isnan(xf) and math.isnan(yf))):
                    return i
            elif x != y:
                return i
        elif not same_float(x, y, tol):
            return i
    return None


# ------------------------------------------------------------------------------------------------
# C08 / C06 / C07: minimum-run filter

def runs(b):
    """Maximal True-runs as (start, stop_exclusive)."""
    out = []
    i, n = 0, len(b)
    while i < n:
        if b[i]:
            j = i
            while j < n and b[j]:
                j += 1
            out.append((i, j))
            i = j
        else:
            i += 1
    return out


def min_run_filter(b, m):
    """Keep every maximal run of True of length >= m entirely, clear every shorter one."""
    b = [bool(v) for v in b]
    out = [False] * len(b)
    for (i, j) in runs(b):
        if (j - i) >= m:
            for k in range(i, j):
                out[k] = True
    return out


# ------------------------------------------------------------------------------------------------
# C02: extrema from half-waves of the band-passed signal

def half_wave_extrema(raw, filt, zero_is_positive=False):
    """Peaks/troughs (indices into raw/filt, same length) of every half-wave of ``filt`` closed by
    zero-crossings on both sides: window [crossing sample, next crossing sample), first arg-max /
    arg-min of ``raw`` inside it.  Also returns the windows and whether a tie occurred."""
    n = len(filt)
    pos = [bool(v >= 0) for v in filt] if zero_is_positive else [bool(v > 0) for v in filt]
    cross = []
    for i in range(n - 1):
        if (not pos[i]) and pos[i + 1]:
            cross.append((i, 'r'))
        elif pos[i] and (not pos[i + 1]):
            cross.append((i, 'd'))
    peaks, troughs, info = [], [], {'windows': 0, 'ties': 0, 'offcentre': 0}
    for (a, ka), (b, kb) in zip(cross[:-1], cross[1:]):
        # crossings alternate by construction of the sign sequence
        best = a
        bv = raw[a]
        ties = 0
        for i in range(a + 1, b):
            v = raw[i]
            if (ka == 'r' and v > bv) or (ka == 'd' and v < bv):
                best, bv, ties = i, v, 0
            elif v == bv:
                ties += 1
        info['windows'] += 1
        info['ties'] += 1 if ties else 0
        if best != (a + b) // 2:
            info['offcentre'] += 1
        (peaks if ka == 'r' else troughs).append(best)
    return peaks, troughs, info


def ref_find_extrema(raw_padded, filt, offset, sig_len, boundary, first_extrema,
                     zero_is_positive=False):
    """Reference for find_extrema given the filter input/output.  An exactly-zero band-passed
    sample belongs to the negative half-wave (the code's convention) unless ``zero_is_positive``."""
    peaks, troughs, info = half_wave_extrema(raw_padded, filt, zero_is_positive)
    peaks = [p - offset for p in peaks]
    troughs = [t - offset for t in troughs]
    info['dropped_pad_or_boundary'] = 0
    info['n_half_waves'] = (len([p for p in peaks if 0 <= p < sig_len]), len([t for t in troughs if 0 <= t < sig_len]))      # before the boundary
    keep_p = [p for p in peaks if p > boundary and p < sig_len - boundary]
    keep_t = [t for t in troughs if t > boundary and t < sig_len - boundary]
    info['dropped_pad_or_boundary'] = len(peaks) - len(keep_p) + len(troughs) - len(keep_t)
    peaks, troughs = keep_p, keep_t
    info['n_before_trim'] = (len(peaks), len(troughs))
    if first_extrema in ('peak', 'trough') and (not peaks or not troughs):
        return None, None, info          # outside the domain: nothing to start with
    if first_extrema == 'peak':
        if peaks[0] > troughs[0]:
            troughs = troughs[1:]
        if troughs and peaks[-1] > troughs[-1]:
            peaks = peaks[:-1]
    elif first_extrema == 'trough':
        if troughs[0] > peaks[0]:
            peaks = peaks[1:]
        if peaks and troughs[-1] > peaks[-1]:
            troughs = troughs[:-1]
    return peaks, troughs, info


# ------------------------------------------------------------------------------------------------
# C03: flank midpoints

def ref_midpoint(sig, a, b, kind, equal_is_low=True):
    """Midpoint of the flank from extremum a to extremum b (a < b), kind 'rise' or 'decay'.

    A sample equal to the half height counts as below it (``equal_is_low``, the convention the code
    has always used) or as above it (the other reading of "the sample just before the signal crosses").
    Returns (value, branch) or (None, 'open') when the statement leaves the case open (no crossing
    of the half height although the flank is neither inverted nor identically zero)."""
    seg = [float(v) for v in sig[a:b + 1]]
    L = len(seg)
    centre = a + L // 2
    allzero = True
    for v in seg:
        if v != 0:
            allzero = False
            break
    if allzero:
        return centre, 'allzero'
    s, e = seg[0], seg[-1]
    if (kind == 'rise' and s > e) or (kind == 'decay' and s < e):
        return centre, 'inverted'
    mid = (s + e) / 2.0
    xs = []
    tie = False
    for i in range(L - 1):
        if equal_is_low:
            lo0, lo1 = seg[i] <= mid, seg[i + 1] <= mid
        else:
            lo0, lo1 = seg[i] < mid, seg[i + 1] < mid
        if kind == 'rise':
            if lo0 and not lo1:
                xs.append(i)
        else:
            if (not lo0) and lo1:
                xs.append(i)
        if seg[i] == mid or seg[i + 1] == mid:
            tie = True
    if not xs:
        return None, 'open'
    k = len(xs)
    if k % 2:
        med = xs[k // 2]
        br = 'single' if k == 1 else 'multi_odd'
    else:
        med = (xs[k // 2 - 1] + xs[k // 2]) / 2.0
        br = 'multi_even'
    if tie:
        br += '+tie'
    return a + int(math.floor(med)), br


def ref_find_zerox(sig, peaks, troughs):
    """Reference for find_zerox: one midpoint per flank, rises and decays in temporal order.

    Returns (rises, decays, branches) where an entry may be None for an open case; flanks is a list
    of (a, b, kind)."""
    ext = sorted([(int(p), 'p') for p in peaks] + [(int(t), 't') for t in troughs])
    rises, decays, branches, flanks = [], [], [], []
    for (a, ka), (b, kb) in zip(ext[:-1], ext[1:]):
        if ka == kb:
            raise ValueError('not alternating')
        kind = 'rise' if ka == 't' else 'decay'
        v, br = ref_midpoint(sig, a, b, kind)
        (rises if kind == 'rise' else decays).append(v)
        branches.append(br)
        flanks.append((a, b, kind))
    return rises, decays, branches, flanks


# ------------------------------------------------------------------------------------------------
# C04: shape features from a row's own cyclepoints and the ORIGINAL signal

SHAPE_COLS = ['period', 'time_rise', 'time_decay', 'time_peak', 'time_trough', 'volt_peak',
              'volt_trough', 'volt_rise', 'volt_decay', 'volt_amp', 'time_rdsym', 'time_ptsym']
EXACT_SHAPE = ['period', 'time_rise', 'time_decay', 'time_peak', 'time_trough', 'volt_peak',
               'volt_trough', 'volt_rise', 'volt_decay', 'volt_amp']


def ref_shape_row(r, sig, center):
    """Documented definitions, read against the un-negated signal.

    peak-centred : last trough L < peak C < next trough N; rise = L->C, decay = C->N
    trough-centred: last peak L < trough C < next peak N; decay = L->C, rise = C->N
    volt_peak / volt_trough: the signal at the peak / trough extremum *of the row*: the centre
    extremum and the last side extremum.
    time_peak / time_trough: spans between consecutive midpoints around the peak / trough."""
    side = 'trough' if center == 'peak' else 'peak'
    L, C, N = int(r['sample_last_' + side]), int(r['sample_' + center]), int(r['sample_next_' + side])
    zr, zd = int(r['sample_zerox_rise']), int(r['sample_zerox_decay'])
    o = {}
    if center == 'peak':
        lz = int(r['sample_last_zerox_decay'])
        o['time_rise'], o['time_decay'] = C - L, N - C
        o['volt_rise'], o['volt_decay'] = sig[C] - sig[L], sig[C] - sig[N]
        o['time_peak'], o['time_trough'] = zd - zr, zr - lz
        o['volt_peak'], o['volt_trough'] = sig[C], sig[L]
    else:
        lz = int(r['sample_last_zerox_rise'])
        o['time_decay'], o['time_rise'] = C - L, N - C
        o['volt_decay'], o['volt_rise'] = sig[L] - sig[C], sig[N] - sig[C]
        o['time_trough'], o['time_peak'] = zr - zd, zd - lz
        o['volt_trough'], o['volt_peak'] = sig[C], sig[L]
    o['period'] = N - L
    o['volt_amp'] = (o['volt_rise'] + o['volt_decay']) / 2
    o['time_rdsym'] = o['time_rise'] / o['period'] if o['period'] else float('nan')
    den = o['time_peak'] + o['time_trough']
    o['time_ptsym'] = (o['time_peak'] / den) if den != 0 else None     # None: statement silent
    return o


# ------------------------------------------------------------------------------------------------
# C05: burst features

def avg_rank(vals):
    """Average rank (1-based; ties share the mean of their ranks); NaN gets NaN."""
    vals = [float(v) for v in vals]
    out = []
    for v in vals:
        if math.isnan(v):
            out.append(float('nan'))
            continue
        less = 0
        eq = 0
        for w in vals:
            if w < v:
                less += 1
            elif w == v:
                eq += 1
        out.append(less + (eq + 1) / 2.0)
    return out


def ratio(a, b):
    """min/max ratio; None when the denominator is zero or a value is NaN (statement silent)."""
    a = float(a)
    b = float(b)
    if math.isnan(a) or math.isnan(b):
        return None
    lo, hi = (a, b) if a <= b else (b, a)
    if hi == 0:
        return None
    return lo / hi


def ref_amp_consistency(vr, vd, center, direction='both'):
    """Per cycle: min over the adjacent rise/decay pairs that include one of the cycle's flanks.

    peak-centred pairs:   (decay[i-1], rise[i])  (rise[i], decay[i])  (decay[i], rise[i+1])
    trough-centred pairs: (rise[i-1], decay[i])  (decay[i], rise[i])  (rise[i], decay[i+1])
    direction 'next' drops the first pair, 'last' the third.  Returns list with NaN at the ends and
    None where a zero denominator / NaN makes the statement silent."""
    n = len(vr)
    out = [float('nan')] * n
    for i in range(1, n - 1):
        if center == 'peak':
            last, cur, nxt = (vd[i - 1], vr[i]), (vr[i], vd[i]), (vd[i], vr[i + 1])
        else:
            last, cur, nxt = (vr[i - 1], vd[i]), (vd[i], vr[i]), (vr[i], vd[i + 1])
        pairs = {'both': [last, cur, nxt], 'next': [cur, nxt], 'last': [last, cur]}[direction]
        rs = [ratio(a, b) for a, b in pairs]
        if any(r is None for r in rs):
            out[i] = None
            continue
        out[i] = max(0.0, min(rs))
    return out


def ref_period_consistency(per, direction='both'):
    n = len(per)
    out = [float('nan')] * n
    for i in range(1, n - 1):
        rl = ratio(per[i], per[i - 1])
        rn = ratio(per[i], per[i + 1])
        use = {'both': [rl, rn], 'next': [rn], 'last': [rl]}[direction]
        if any(r is None for r in use):
            out[i] = None
            continue
        out[i] = min(use)
    return out


def frac_steps(seg, sign):
    """Fraction of strictly increasing (sign=+1) / decreasing (sign=-1) steps; None if no step."""
    k = len(seg) - 1
    if k <= 0:
        return None
    c = 0
    for i in range(k):
        d = float(seg[i + 1]) - float(seg[i])
        if (sign > 0 and d > 0) or (sign < 0 and d < 0):
            c += 1
    return c / k


def ref_monotonicity_row(sig, L, C, N, center):
    """Mean of the rise's strictly-increasing fraction and the decay's strictly-decreasing one over
    the inclusive flank windows."""
    if center == 'peak':
        rise, decay = sig[L:C + 1], sig[C:N + 1]
    else:
        decay, rise = sig[L:C + 1], sig[C:N + 1]
    a, b = frac_steps(rise, +1), frac_steps(decay, -1)
    if a is None or b is None:
        return None
    return (a + b) / 2.0


# ------------------------------------------------------------------------------------------------
# C06 / C07 label rules

CYCLE_DEFAULTS = dict(amp_fraction_threshold=0., amp_consistency_threshold=.5,
                      period_consistency_threshold=.5, monotonicity_threshold=.8, min_n_cycles=3)


def ref_labels_cycles(af, ac, pc, mo, thr):
    """q[i] = all four strictly above their thresholds (NaN never qualifies), first and last never;
    labels = min_run_filter(q, min_n_cycles)."""
    t = dict(CYCLE_DEFAULTS)
    t.update(thr or {})
    n = len(af)
    q = []
    for i in range(n):
        ok = (float(af[i]) > t['amp_fraction_threshold'] and
              float(ac[i]) > t['amp_consistency_threshold'] and
              float(pc[i]) > t['period_consistency_threshold'] and
              float(mo[i]) > t['monotonicity_threshold'])
        q.append(bool(ok))
    if n:
        q[0] = False
        q[-1] = False
    return min_run_filter(q, t['min_n_cycles']), q


def ref_labels_amp(bf, thr_value, m):
    q = [bool(float(v) >= thr_value) for v in bf]
    return min_run_filter(q, m), q


def ref_burst_fraction(mask, lasts, nexts):
    out = []
    for a, b in zip(lasts, nexts):
        a, b = int(a), int(b)
        c = 0
        for i in range(a, b + 1):
            if mask[i]:
                c += 1
        out.append(c / (b + 1 - a))
    return out
