"""The repository's own test-suite as an additional workload, with the monitors attached (thorough tier).

The tests run in-process (so the wrappers bound by the check are the functions they call); after every test
the violations recorded by the monitors of the property under check are collected with the test's node id as
the case.  A monitor that fires here is either too strict or a defect the test does not assert."""
import fcntl
import os

from . import attach
from .runner import REPO, quiet


def run(sh, prop, extra_props=()):
    import pytest

    class Collector:
        def __init__(self):
            self.n = 0

        def pytest_runtest_logreport(self, report):
            if report.when != 'call':
                return
            self.n += 1
            sh.note('repo_tests:' + report.outcome)
            for v in attach.take_violations():
                if v['property'] in (prop, '_monitor') + tuple(extra_props):
                    sh.violate({'repo_test': report.nodeid}, dict(v, message='[during %s] %s' % (report.nodeid, v['message'])),
                               'repo_tests')
                else:
                    sh.note('repo_tests:alarm_of_other_property:' + v['property'])

    attach.take_violations()
    col = Collector()
    lock = open('/tmp/bcverif_repotests.lock', 'w')
    cwd = os.getcwd()
    try:
        fcntl.flock(lock, fcntl.LOCK_EX)
        os.chdir(REPO)
        with quiet():
            pytest.main(['-q', '-p', 'no:cacheprovider', '--timeout=600', '-x' if False else '--continue-on-collection-errors',
                         '--deselect', 'bycycle/tests/utils/test_download.py', os.path.join(REPO, 'bycycle', 'tests')],
                        plugins=[col])
    finally:
        os.chdir(cwd)
        fcntl.flock(lock, fcntl.LOCK_UN)
        lock.close()
    sh.note('repo_tests_run', col.n)
    sh.extra['repo_tests_with_monitors'] = col.n
