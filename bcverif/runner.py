"""Check runner: shards, aggregation, verdicts, evidence, replay files, known findings."""
import base64
import collections
import contextlib
import faulthandler
import hashlib
import importlib
import io
import json
import os
import shutil
import subprocess
import sys
import tempfile
import time
import traceback
import warnings

import numpy as np

HERE = os.path.dirname(os.path.dirname(os.path.abspath(__file__)))
REPO = os.environ.get('BCVERIF_REPO', '/repo')
PY = sys.executable

PROPS = ['C%02d' % i for i in range(1, 21)]


# ------------------------------------------------------------------------------------------------
# JSON encoding of materialised cases (arrays, tuples, DataFrames)

def enc(o):
    import pandas as pd
    if isinstance(o, np.ndarray):
        if o.dtype == object:
            return {'__ndobj__': [enc(v) for v in o.tolist()], 'shape': list(o.shape)}
        if o.size <= 48:
            return {'__nd__': o.dtype.str, 'shape': list(o.shape), 'v': o.ravel().tolist()}
        return {'__nd__': o.dtype.str, 'shape': list(o.shape),
                'b64': base64.b64encode(np.ascontiguousarray(o).tobytes()).decode()}
    if isinstance(o, pd.DataFrame):
        return {'__df__': {c: enc(o[c].to_numpy()) for c in o.columns},
                'index': enc(np.asarray(o.index))}
    if isinstance(o, pd.Series):
        return enc(o.to_numpy())
    if isinstance(o, tuple):
        return {'__tuple__': [enc(v) for v in o]}
    if isinstance(o, list):
        return [enc(v) for v in o]
    if isinstance(o, dict):
        return {str(k): enc(v) for k, v in o.items()}
    if isinstance(o, (np.integer,)):
        return int(o)
    if isinstance(o, (np.floating,)):
        return enc(float(o))
    if isinstance(o, (np.bool_,)):
        return bool(o)
    if isinstance(o, float):
        if o != o:
            return {'__f__': 'nan'}
        if o in (float('inf'), float('-inf')):
            return {'__f__': 'inf' if o > 0 else '-inf'}
        return o
    if o is None or isinstance(o, (int, str, bool)):
        return o
    return {'__repr__': repr(o)}


def dec(o):
    import pandas as pd
    if isinstance(o, list):
        return [dec(v) for v in o]
    if isinstance(o, dict):
        if '__nd__' in o:
            dt = np.dtype(o['__nd__'])
            if 'b64' in o:
                a = np.frombuffer(base64.b64decode(o['b64']), dtype=dt).copy()
            else:
                a = np.array(o['v'], dtype=dt)
            return a.reshape(o['shape'])
        if '__ndobj__' in o:
            vals = [dec(v) for v in o['__ndobj__']]
            a = np.empty(len(vals), dtype=object)
            for i, v in enumerate(vals):
                a[i] = v
            return a.reshape(o['shape'])
        if '__df__' in o:
            df = pd.DataFrame({c: dec(v) for c, v in o['__df__'].items()})
            idx = dec(o['index'])
            if len(idx) == len(df):
                df.index = idx
            return df
        if '__tuple__' in o:
            return tuple(dec(v) for v in o['__tuple__'])
        if '__f__' in o:
            return float(o['__f__'])
        if '__repr__' in o:
            return o['__repr__']
        return {k: dec(v) for k, v in o.items()}
    return o


def case_hash(case):
    return hashlib.sha1(json.dumps(enc(case), sort_keys=True).encode()).hexdigest()


def brief(o, depth=0):
    """Short, human-readable rendering of a case for evidence samples."""
    import pandas as pd
    if isinstance(o, np.ndarray):
        if o.size <= 12:
            return o.tolist()
        return 'array(shape=%s, dtype=%s, head=%s)' % (list(o.shape), o.dtype,
                                                       np.round(o.ravel()[:4].astype(float), 4).tolist()
                                                       if o.dtype != object else '...')
    if isinstance(o, pd.DataFrame):
        return 'DataFrame(rows=%d, cols=%d)' % (len(o), len(o.columns))
    if isinstance(o, dict):
        return {str(k): brief(v, depth + 1) for k, v in list(o.items())[:24]}
    if isinstance(o, (list, tuple)):
        if len(o) > 12:
            return [brief(v, depth + 1) for v in o[:6]] + ['... %d more' % (len(o) - 6)]
        return [brief(v, depth + 1) for v in o]
    if isinstance(o, (np.integer,)):
        return int(o)
    if isinstance(o, (np.floating, float)):
        f = float(o)
        return f if f == f and abs(f) != float('inf') else repr(f)
    if isinstance(o, (np.bool_,)):
        return bool(o)
    if o is None or isinstance(o, (int, str, bool)):
        return o
    return repr(o)[:80]


# ------------------------------------------------------------------------------------------------
# shard side

class Shard:
    """Accumulates what a shard observed."""

    def __init__(self, prop, tier, seed, shard, nshards):
        self.prop, self.tier, self.seed, self.shard, self.nshards = prop, tier, seed, shard, nshards
        self.cases = 0
        self.nontrivial = set()
        self.classes = collections.Counter()
        self.samples = []
        self.violations = []       # dicts: mechanism, message, replay (path), detail
        self.seen_mech = collections.Counter()
        self.t0 = time.time()
        self.exhaustive = {}
        self.extra = {}

    def note(self, cls, n=1):
        self.classes[cls] += n

    def case_done(self, case, nontrivial, sample=None, key=None):
        self.cases += 1
        if nontrivial:
            self.nontrivial.add(key if key is not None else case_hash(case))
        if sample is not None and len(self.samples) < 3:
            self.samples.append(sample)
        elif sample is None and len(self.samples) < 3 and case is not None:
            self.samples.append(brief(case))

    def violate(self, case, v, driver=None):
        """Record a violation together with its replay file (first few per mechanism)."""
        mech = v['mechanism']
        self.seen_mech[mech] += 1
        if self.seen_mech[mech] > 3:
            return
        rdir = os.path.join(HERE, 'replay', self.prop)
        os.makedirs(rdir, exist_ok=True)
        body = {'property': self.prop, 'driver': driver, 'mechanism': mech,
                'message': v['message'], 'detail': enc(v.get('detail', {})),
                'case': enc(case), 'seed': self.seed, 'tier': self.tier, 'shard': self.shard}
        h = hashlib.sha1(json.dumps(body, sort_keys=True).encode()).hexdigest()[:16]
        path = os.path.join(rdir, '%s.json' % h)
        with open(path, 'w') as f:
            json.dump(body, f)
        self.violations.append({'mechanism': mech, 'message': v['message'][:600],
                                'replay': path, 'class': v.get('class')})

    def result(self):
        from . import attach
        return {'cases': self.cases, 'nontrivial': sorted(self.nontrivial),
                'classes': dict(self.classes), 'samples': self.samples,
                'violations': self.violations, 'mech_counts': dict(self.seen_mech),
                'counts': dict(attach.COUNTS), 'wall': time.time() - self.t0,
                'exhaustive': self.exhaustive, 'extra': self.extra}


class CaseTimeout(BaseException):
    """Raised in the main thread when one case exceeds its wall-clock limit (BaseException: not a verdict, never swallowed by
    the drivers' ``except Exception``)."""


@contextlib.contextmanager
def time_limit(seconds):
    import signal

    def handler(signum, frame):
        raise CaseTimeout()
    old = signal.signal(signal.SIGALRM, handler)
    signal.alarm(int(seconds))
    try:
        yield
    finally:
        signal.alarm(0)
        signal.signal(signal.SIGALRM, old)


def guarded(sh, fn, *a, limit=240, **k):
    """Run one case under a generous wall-clock limit.  CPython's multiprocessing.Pool can deadlock in terminate() (seen under
    load: workers exited, parent blocked on a SemLock); such a case is abandoned and counted, it is neither a violation nor held."""
    from . import attach
    try:
        with time_limit(limit):
            return fn(*a, **k)
    except CaseTimeout:
        sh.note('case_abandoned_after_%ds_wall_clock(pool_deadlock?)' % limit)
        sh.extra['cases_abandoned'] = sh.extra.get('cases_abandoned', 0) + 1
        attach.take_violations()
        try:
            import matplotlib.pyplot as plt
            plt.close('all')
        except Exception:
            pass
        return None


@contextlib.contextmanager
def quiet():
    """Capture stdout/stderr of the code under test and record warnings by category."""
    from . import attach
    buf_o, buf_e = io.StringIO(), io.StringIO()
    with warnings.catch_warnings(record=True) as wlist:
        warnings.simplefilter('always')
        with contextlib.redirect_stdout(buf_o), contextlib.redirect_stderr(buf_e):
            try:
                yield wlist
            finally:
                for w in wlist:
                    attach.count('warn:' + w.category.__name__)


def shard_main(argv):
    import argparse
    ap = argparse.ArgumentParser()
    ap.add_argument('prop')
    ap.add_argument('--tier', default='quick')
    ap.add_argument('--seed', type=int, default=0)
    ap.add_argument('--shard', type=int, default=0)
    ap.add_argument('--nshards', type=int, default=1)
    ap.add_argument('--out', required=True)
    ap.add_argument('--replay', default=None)
    ap.add_argument('--budget', type=float, default=0)
    a = ap.parse_args(argv)
    faulthandler.enable()
    # watchdog: if the shard is still running shortly before the main process would kill it, dump every thread's stack to
    # the shard log (the run is then reported as INCONCLUSIVE, never as a verdict)
    wd = float(os.environ.get('BCVERIF_WATCHDOG', '0') or 0)
    if wd > 0:
        faulthandler.dump_traceback_later(wd, exit=False)
    from . import attach
    attach.import_repo()
    mod = importlib.import_module('bcverif.props.%s' % a.prop.lower())
    sh = Shard(a.prop, a.tier, a.seed, a.shard, a.nshards)
    sh.budget = a.budget
    status = 'ok'
    try:
        if a.replay:
            with open(a.replay) as f:
                body = json.load(f)
            mod.setup(sh)
            mod.replay(sh, body.get('driver'), dec(body['case']))
        else:
            mod.setup(sh)
            mod.run(sh)
    except Exception:
        status = 'harness_error'
        sh.extra['harness_error'] = traceback.format_exc()
    res = sh.result()
    res['status'] = status
    import bycycle
    res['bycycle_file'] = bycycle.__file__
    with open(a.out, 'w') as f:
        json.dump(res, f)
        f.flush()
        os.fsync(f.fileno())
    sys.stdout.flush()
    sys.stderr.flush()
    # skip atexit handlers: a Pool left half-terminated by an abandoned case would make multiprocessing's exit function hang
    os._exit(0)


# ------------------------------------------------------------------------------------------------
# main side

def load_known():
    path = os.path.join(HERE, 'known_findings.json')
    if not os.path.exists(path):
        return []
    with open(path) as f:
        return json.load(f).get('findings', [])


def repo_state():
    def git(*args):
        try:
            return subprocess.run(['git', '-C', REPO] + list(args), capture_output=True, text=True,
                                  timeout=30).stdout.strip()
        except Exception:
            return ''
    return {'head': git('rev-parse', 'HEAD'), 'dirty': bool(git('status', '--porcelain', '--', 'bycycle'))}


def default_shards(prop, tier):
    from .props import CONFIG
    c = CONFIG.get(prop, {})
    return c.get(tier + '_shards', 4 if tier == 'quick' else 16)


def run_check(prop, tier='quick', seed=0, jobs=None, replay=None):
    t0 = time.time()
    from .props import CONFIG
    conf = CONFIG[prop]
    nshards = 1 if replay else (jobs or default_shards(prop, tier))
    timeout = conf.get(tier + '_timeout', 600 if tier == 'quick' else 3600)
    work = tempfile.mkdtemp(prefix='bcverif_%s_' % prop, dir=os.path.join(HERE, '.work')
                            if os.path.isdir(os.path.join(HERE, '.work')) else None)
    env = dict(os.environ)
    env.update({'OMP_NUM_THREADS': '1', 'OPENBLAS_NUM_THREADS': '1', 'MKL_NUM_THREADS': '1',
                'PYTHONPATH': HERE + os.pathsep + env.get('PYTHONPATH', ''),
                'PYTHONHASHSEED': '0', 'MPLBACKEND': 'Agg', 'BYCYCLE_VERIF': '1',
                'BCVERIF_WORK': work, 'PYTHONDONTWRITEBYTECODE': '1', 'BCVERIF_WATCHDOG': str(max(30, timeout - 20))})
    procs = []
    for s in range(nshards):
        out = os.path.join(work, 'shard%d.json' % s)
        cmd = [PY, '-m', 'bcverif.runner', prop, '--tier', tier, '--seed', str(seed), '--shard',
               str(s), '--nshards', str(nshards), '--out', out]
        if replay:
            cmd += ['--replay', replay]
        log = open(os.path.join(work, 'shard%d.log' % s), 'w')
        procs.append((s, out, subprocess.Popen(cmd, cwd=HERE, env=env, stdout=log, stderr=log), log))
    results, inconclusive = [], []
    deadline = time.time() + timeout
    for s, out, p, log in procs:
        try:
            p.wait(timeout=max(1, deadline - time.time()))
        except subprocess.TimeoutExpired:
            p.kill()
            p.wait()
            inconclusive.append('shard %d: watchdog (%ds) fired' % (s, timeout))
        log.close()
        if os.path.exists(out):
            with open(out) as f:
                results.append(json.load(f))
        else:
            tail = ''
            try:
                with open(os.path.join(work, 'shard%d.log' % s)) as f:
                    tail = f.read()[-1500:]
            except Exception:
                pass
            inconclusive.append('shard %d: no result (exit %s) %s' % (s, p.returncode, tail))
    # aggregate
    agg = {'cases': 0, 'classes': collections.Counter(), 'counts': collections.Counter(),
           'nontrivial': set(), 'samples': [], 'violations': [], 'mech': collections.Counter(),
           'exhaustive': {}, 'extra': {}}
    for r in results:
        agg['cases'] += r['cases']
        agg['classes'].update(r['classes'])
        for ck, cv in r['counts'].items():
            if ck.startswith('attached:') or ck.startswith('contracts:'):
                agg['counts'][ck] = max(agg['counts'].get(ck, 0), cv)
            else:
                agg['counts'][ck] += cv
        agg['nontrivial'].update(r['nontrivial'])
        if len(agg['samples']) < 4:
            agg['samples'].extend(r['samples'][:2])
        agg['violations'].extend(r['violations'])
        agg['mech'].update(r['mech_counts'])
        for k, v in r.get('exhaustive', {}).items():
            tgt = agg['exhaustive'].setdefault(k, {})
            for kk, vv in v.items():
                tgt[kk] = tgt.get(kk, 0) + vv if isinstance(vv, (int, float)) and not kk.endswith('_cap') else vv
        for k, v in r.get('extra', {}).items():
            agg['extra'].setdefault(k, []).append(v)
        if r.get('status') != 'ok':
            inconclusive.append('harness error: ' + str(r.get('extra', {}).get('harness_error'))[-1500:])
    shutil.rmtree(work, ignore_errors=True)

    # classify violations against the known-findings file (mechanism keyed)
    known = [k for k in load_known() if k.get('property') == prop and k.get('status') == 'known']
    lines, new_viol, known_hit = [], [], collections.OrderedDict()
    for v in agg['violations']:
        hit = None
        for k in known:
            if v['mechanism'] == k['mechanism'] or \
                    (k.get('mechanism_prefix') and v['mechanism'].startswith(k['mechanism_prefix'])):
                hit = k
                break
        if hit is not None:
            known_hit.setdefault(hit['mechanism'], (hit, v))
        else:
            new_viol.append(v)
    for mech, (k, v) in known_hit.items():
        lines.append('KNOWN-FINDING: property=%s %s [mechanism=%s, e.g. replay=%s]'
                     % (prop, k.get('what', ''), mech, v['replay']))
    seen = set()
    for v in new_viol:
        if v['mechanism'] in seen:
            continue
        seen.add(v['mechanism'])
        lines.append('VIOLATION property=%s replay=%s' % (prop, v['replay']))
        lines.append('  mechanism=%s: %s' % (v['mechanism'], v['message'].replace('\n', ' | ')[:400]))

    # reachability / floors
    floors = conf.get('floors', {}).get(tier, {})
    deciding = conf.get('deciding', [])
    if not replay:
        for m in deciding:
            if agg['counts'].get('eval:' + m, 0) == 0:
                inconclusive.append('deciding monitor %s was never evaluated' % m)
        if len(agg['nontrivial']) < floors.get('nontrivial', 2):
            inconclusive.append('only %d distinct non-trivial cases (floor %d)'
                                % (len(agg['nontrivial']), floors.get('nontrivial', 2)))
        for cls, fl in floors.get('classes', {}).items():
            if agg['classes'].get(cls, 0) < fl:
                inconclusive.append('class %s observed %d times (floor %d)'
                                    % (cls, agg['classes'].get(cls, 0), fl))
    if agg['counts'].get('viol:_monitor', 0) or any(v['mechanism'].startswith('monitor_error')
                                                    for v in agg['violations']):
        pass

    wall = time.time() - t0
    rs = repo_state()
    nvi = len(seen)
    evaluations = int(sum(agg['counts'].get('eval:' + m, 0) for m in deciding) or agg['cases'])
    coverage = {
        'evaluations': evaluations,
        'distinct_nontrivial': len(agg['nontrivial']),
        'rule': conf.get('rule', ''),
        'samples': agg['samples'][:4] or ['(none)'],
        'cases_generated': agg['cases'],
        'classes': dict(sorted(agg['classes'].items())),
        'monitor_evaluations': {k[5:]: v for k, v in sorted(agg['counts'].items())
                                if k.startswith('eval:')},
        'attached_bindings': {k[9:]: v for k, v in sorted(agg['counts'].items())
                              if k.startswith('attached:')},
        'warnings_captured': {k[5:]: v for k, v in sorted(agg['counts'].items())
                              if k.startswith('warn:')},
        'violations_by_mechanism': dict(agg['mech']),
        'known_findings_reported': list(known_hit.keys()),
        'inconclusive_reasons': inconclusive,
        'shards': nshards,
        'repo': rs,
        'code_under_test': sorted({r.get('bycycle_file', '?') for r in results}),
        'contracts_backend': 'icontract' if agg['counts'].get('contracts:icontract') else
                             ('builtin' if agg['counts'].get('contracts:builtin') else 'n/a'),
    }
    if agg['exhaustive']:
        coverage['exhaustive'] = True
        coverage['exhaustive_spaces'] = agg['exhaustive']
    for k, v in agg['extra'].items():
        if k != 'harness_error':
            coverage[k] = v
    evidence = {'property_id': prop, 'tier': tier, 'seed': int(seed), 'level': 'exploration',
                'coverage': coverage, 'assumptions': conf.get('assumptions', []),
                'wall_s': round(wall, 2), 'violations': nvi}
    if not replay and os.environ.get('BCVERIF_EVIDENCE_DIR'):
        os.makedirs(os.environ['BCVERIF_EVIDENCE_DIR'], exist_ok=True)
        with open(os.path.join(os.environ['BCVERIF_EVIDENCE_DIR'], '%s.%s.%d.json' % (prop, tier, seed)), 'w') as f:
            json.dump(evidence, f, indent=1, sort_keys=True, default=str)
    elif not replay and not os.environ.get('BCVERIF_NO_EVIDENCE'):
        os.makedirs(os.path.join(HERE, 'evidence'), exist_ok=True)
        with open(os.path.join(HERE, 'evidence', '%s.json' % prop), 'w') as f:
            json.dump(evidence, f, indent=1, sort_keys=True, default=str)
    for ln in lines:
        print(ln)
    if nvi:
        code = 1
    elif inconclusive:
        for r in inconclusive:
            print('INCONCLUSIVE property=%s %s' % (prop, r.replace('\n', ' | ')[:1200]))
        code = 2
    else:
        code = 0
    print('%s %s tier=%s seed=%d: %s; %d cases, %d monitored evaluations, %d distinct non-trivial, '
          '%d known findings, %.1fs'
          % (prop, conf.get('title', ''), tier, seed,
             {0: 'HELD on everything observed', 1: 'VIOLATED', 2: 'INCONCLUSIVE'}[code],
             agg['cases'], evaluations, len(agg['nontrivial']), len(known_hit), wall))
    return code


if __name__ == '__main__':
    sys.exit(shard_main(sys.argv[1:]))
