#!/bin/sh
# Offline setup: third-party helper libraries (icontract for contracts, jsonschema for evidence
# validation) are installed next to the framework from the local wheelhouse.  Nothing is fetched.
# The checks fall back to built-in equivalents when this directory is absent.
set -u
cd "$(dirname "$0")"
if [ ! -d .deps/icontract ]; then
  /venv/bin/python -m pip install --quiet --no-index --find-links /opt/veriftools/wheels \
      --target .deps icontract jsonschema >/dev/null 2>&1 || echo "setup: wheel install failed; built-in fallbacks will be used"
fi
/venv/bin/python - <<'P'
import sys
sys.path.insert(0, '.deps')
try:
    import icontract; print('icontract', icontract.__version__)
except Exception as e:
    print('icontract unavailable:', e)
P
exit 0
