#!/usr/bin/env python3
"""Break-test campaign: apply each textual mutation of tools/break_tests.json to a scratch copy of /repo, run the quick check of
the property it targets (seed 0) and record whether a VIOLATION was reported.  Writes tools/break_tests_results.md.

  tools/break_tests.py [--only C05] [--tests]      (--tests additionally runs the 34 baseline tests on every mutant)
"""
import argparse
import json
import os
import shutil
import signal
import subprocess
import sys
import tempfile
import xml.etree.ElementTree as ET

HERE = os.path.dirname(os.path.dirname(os.path.abspath(__file__)))


def baseline_ok(dst, tmp):
    base = json.load(open('/root/.vp/BASELINE.json'))['stable_pass']
    junit = os.path.join(tmp, 'j.xml')
    p = subprocess.Popen(['/venv/bin/python', '-m', 'pytest', '-q', '-p', 'no:cacheprovider', '--timeout=120', '--continue-on-collection-errors',
                          '--junitxml=' + junit], cwd=dst, stdout=subprocess.DEVNULL, stderr=subprocess.DEVNULL,
                         env=dict(os.environ, PYTHONPATH=dst), start_new_session=True)
    try:
        p.wait(timeout=500)
    except subprocess.TimeoutExpired:
        os.killpg(p.pid, signal.SIGKILL)
        return 'hang'
    ok = set()
    if os.path.exists(junit):
        for tc in ET.parse(junit).getroot().iter('testcase'):
            if not [c for c in tc if c.tag in ('failure', 'error', 'skipped')]:
                ok.add('%s::%s' % (tc.get('classname'), tc.get('name')))
    missing = [t for t in base if t not in ok]
    return 'pass' if not missing else 'FAIL(%d)' % len(missing)


def main():
    ap = argparse.ArgumentParser()
    ap.add_argument('--only', nargs='*')
    ap.add_argument('--tests', action='store_true')
    a = ap.parse_args()
    muts = json.load(open(os.path.join(HERE, 'tools', 'break_tests.json')))
    rows = []
    for i, m in enumerate(muts):
        if a.only and m['prop'] not in a.only:
            continue
        tmp = tempfile.mkdtemp(prefix='bcbt_', dir='/tmp')
        dst = os.path.join(tmp, 'repo')
        try:
            subprocess.run(['rsync', '-a', '--exclude', '.git', '--exclude', '__pycache__', '/repo/', dst + '/'], check=True)
            p = os.path.join(dst, m['file'])
            s = open(p).read()
            if m['old'] not in s:
                rows.append((m, 'SITE NOT FOUND', '', ''))
                continue
            open(p, 'w').write(s.replace(m['old'], m['new'], 1))
            tests = baseline_ok(dst, tmp) if a.tests else 'n/a'
            env = dict(os.environ, BCVERIF_REPO=dst, BCVERIF_NO_EVIDENCE='1', VERIF_SEED='0')
            r = subprocess.run([os.path.join(HERE, 'check'), m['prop'], '--tier', 'quick'], env=env, capture_output=True, text=True)
            mech = [l.strip() for l in r.stdout.splitlines() if 'mechanism=' in l]
            verdict = {0: 'MISSED', 1: 'caught', 2: 'inconclusive'}.get(r.returncode, 'exit %d' % r.returncode)
            rows.append((m, verdict, mech[0].split(':')[0].replace('mechanism=', '') if mech else '', tests))
            print('%-4s %-12s %-10s %s' % (m['prop'], verdict, tests, m['note']), flush=True)
        finally:
            shutil.rmtree(tmp, ignore_errors=True)
    with open(os.path.join(HERE, 'tools', 'break_tests_results.md'), 'w') as f:
        f.write('| property | mutation (one site in /repo) | baseline tests | quick check (seed 0) | first mechanism reported |\n|---|---|---|---|---|\n')
        for m, verdict, mech, tests in rows:
            f.write('| %s | `%s`: %s | %s | %s | %s |\n' % (m['prop'], m['file'].replace('bycycle/', ''), m['note'], tests, verdict, mech))
    n = len(rows)
    c = sum(1 for r in rows if r[1] == 'caught')
    print('caught %d of %d' % (c, n))


if __name__ == '__main__':
    sys.exit(main())
