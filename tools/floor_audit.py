#!/usr/bin/env python3
"""Floor audit: run every quick check for several seeds (evidence to a scratch directory) and compare the smallest observed value of
every floored quantity with its floor.  A ratio below 3 is flagged: a floor that random variation can cross would make the check
report INCONCLUSIVE on an unchanged tree.

  tools/floor_audit.py [--seeds 0 1 2 ...] [--props C01 ...] [--tier quick]
"""
import argparse
import glob
import json
import os
import shutil
import subprocess
import sys
import tempfile

HERE = os.path.dirname(os.path.dirname(os.path.abspath(__file__)))
sys.path.insert(0, HERE)
from bcverif.props import CONFIG  # noqa: E402


def main():
    ap = argparse.ArgumentParser()
    ap.add_argument('--seeds', nargs='*', type=int, default=list(range(8)))
    ap.add_argument('--props', nargs='*', default=sorted(CONFIG))
    ap.add_argument('--tier', default='quick')
    a = ap.parse_args()
    d = tempfile.mkdtemp(prefix='bcfloor_', dir='/tmp')
    bad = 0
    try:
        for p in a.props:
            codes = []
            for s in a.seeds:
                env = dict(os.environ, BCVERIF_EVIDENCE_DIR=d, VERIF_SEED=str(s))
                r = subprocess.run([os.path.join(HERE, 'check'), p, '--tier', a.tier], env=env, capture_output=True, text=True)
                codes.append(r.returncode)
            fl = CONFIG[p].get('floors', {}).get(a.tier, {})
            evs = [json.load(open(f)) for f in glob.glob(os.path.join(d, '%s.%s.*.json' % (p, a.tier)))]
            rows = [('nontrivial', fl.get('nontrivial', 2), min(e['coverage']['distinct_nontrivial'] for e in evs))]
            for c, f in fl.get('classes', {}).items():
                rows.append((c, f, min(e['coverage']['classes'].get(c, 0) for e in evs)))
            for m in CONFIG[p].get('deciding', []):
                rows.append(('eval:' + m, 1, min(e['coverage']['monitor_evaluations'].get(m, 0) for e in evs)))
            line = '%s exit codes %s' % (p, sorted(set(codes)))
            for name, floor, mn in rows:
                ratio = mn / floor if floor else float('inf')
                flag = '  <-- TIGHT' if ratio < 3 else ''
                if flag:
                    bad += 1
                line += '\n    %-45s floor %-7s min observed %-8s ratio %.1f%s' % (name, floor, mn, ratio, flag)
            print(line, flush=True)
        print('tight floors: %d' % bad)
    finally:
        shutil.rmtree(d, ignore_errors=True)


if __name__ == '__main__':
    main()
