#!/usr/bin/env python3
"""Rewrite the generated region of DESIGN.md (between the BEGIN/END GENERATED markers of section 5) from
tools/break_tests_results.md and seeded/*/meta.json."""
import glob
import json
import os
import re

HERE = os.path.dirname(os.path.dirname(os.path.abspath(__file__)))
out = []
out.append('### 5.1 Seeded changes written by independent sub-agents\n')
out.append('Each change was written by a fresh sub-agent that saw only the text of one property and a scratch worktree of `/repo` '
           '(nothing from `/verif`). It was kept under `seeded/<id>/` (patch.diff, demo.py, notes.md, meta.json) only after being '
           'confirmed with `tools/seeded_eval.py`: the patch applies to `/repo` HEAD, the repository\'s suite passes exactly as before '
           '(34/34 baseline tests, 108 passing in total), the demo exits 1 on the patched copy and 0 on a clean one. The last column '
           'gives every quick check (seed 0) that reported a `VIOLATION` on the patched copy when the change was kept (with the machinery of that moment; '
           'later strengthening only adds checks to these lists); the check of the change\'s own property was re-run on every kept change with the final '
           'machinery (`tools/reeval_all.py --own-only`). A few kept changes were affected by later repairs of `/repo`: `C13-missing-thresholds-inherit-previous-epoch` and `C15-find-extrema-kwargs-setdefault` '
           'no longer applied after repairs D13 / D14 rewrote neighbouring lines, and `C19-range-check-skipped-when-no-burst` still applied but had become inert after repair D15 '
           'moved the range check; the three were rebased (same change, re-confirmed with `tools/seeded_eval.py`, note in their meta.json); '
           '`C04-volt-amp-mean-in-signal-dtype` (round 7: `volt_amp` averaged in the dtype of the signal) became inert once repair D14 made '
           '`compute_shape_features` analyse integer recordings as floats - its own demo passes on the patched copy - and was retired.\n')
out.append('| seeded change | breaks | needs, in order to manifest | caught by (quick, seed 0) |')
out.append('|---|---|---|---|')
rows = []
for mf in sorted(glob.glob(os.path.join(HERE, 'seeded', '*', 'meta.json'))):
    m = json.load(open(mf))
    name = os.path.basename(os.path.dirname(mf))
    caught = m.get('quick_checks_that_report_a_violation') or []
    own = m['property'] in caught
    rows.append('| `%s`: %s | %s | %s | %s%s |' % (name, m['summary'], m['property'], m['needs_to_manifest'], ', '.join(caught) or '—',
                                                  '' if own else ' (**own check silent**)'))
out += rows
out.append('')
out.append(open(os.path.join(HERE, 'tools', 'missed_log.md')).read())
out.append('### 5.1b Behaviour-preserving refactorings (false-alarm resistance)\n')
out.append('Twelve further sub-agents (six early, six after round 8 of the seeded changes, when the checks had become much stricter) were each given two to four property texts and a scratch worktree and asked for a *substantial '
           'refactoring that keeps the properties true* (vectorising loops, restructuring branches, renaming and splitting helpers, '
           'rebuilding tables differently), validated by their own differential script against the original functions. Kept under '
           '`refactors/<id>/`. Every quick check was run on each refactored copy when it was kept (the `/repo` HEAD of that moment is recorded in its meta.json); R1-R3, R7, R8 '
           'and R11 still apply to the final `/repo` HEAD and were re-run with the final machinery (`tools/reeval_all.py`: no alarm); the patches of R4, R5, R6, R9, R10 and R12 '
           'overlap in one hunk each with lines that a later repair (D12, D13, D15-D17) rewrote (R10 still applies textually but collides with the branch added by D17: the copy does '
           'not import, and every check reports INCONCLUSIVE, not a violation) and are kept as records of the evaluation at their time:\n')
out.append('| refactoring | changed lines | alarms raised by the 20 quick checks |')
out.append('|---|---|---|')
for mf in sorted(glob.glob(os.path.join(HERE, 'refactors', '*', 'meta.json'))):
    m = json.load(open(mf))
    name = os.path.basename(os.path.dirname(mf))
    notes = open(os.path.join(os.path.dirname(mf), 'notes.md')).read() if os.path.exists(os.path.join(os.path.dirname(mf), 'notes.md')) else ''
    files = sorted(set(re.findall(r'bycycle/[a-z_/]+\.py', open(os.path.join(os.path.dirname(mf), 'patch.diff')).read())))
    out.append('| `%s`: %s | %s | %s |' % (name, ', '.join(f.replace('bycycle/', '') for f in files), m.get('changed_lines'),
                                         ', '.join(m.get('quick_checks_that_report_a_violation') or []) or 'none'))
out.append('')
bt = os.path.join(HERE, 'tools', 'break_tests_results.md')
if os.path.exists(bt):
    lines = open(bt).read().strip().splitlines()
    body = lines[2:]
    n = len(body)
    c = sum(1 for l in body if '| caught |' in l)
    out.append('### 5.2 Break-test campaign (own mutations)\n')
    out.append('`tools/break_tests.py` applies each single-site mutation of `tools/break_tests.json` to a scratch copy of `/repo` and runs '
               'the quick check of the targeted property (seed 0): **%d of %d caught**. Mutations marked (Dn) re-introduce a repaired '
               'defect. The baseline-test column is filled when the campaign is run with `--tests`.\n' % (c, n))
    out += lines
    out.append('')
text = '\n'.join(out)
p = os.path.join(HERE, 'DESIGN.md')
s = open(p).read()
b, e = '<!-- BEGIN GENERATED -->', '<!-- END GENERATED -->'
if b in s:
    s = s[:s.index(b) + len(b)] + '\n' + text + '\n' + s[s.index(e):]
    open(p, 'w').write(s)
    print('DESIGN.md tables regenerated: %d seeded, break tests %s' % (len(rows), 'yes' if os.path.exists(bt) else 'no'))
else:
    print('markers not found')
