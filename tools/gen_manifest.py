#!/usr/bin/env python3
"""Regenerate MANIFEST.json from bcverif.props.config (run with /venv/bin/python)."""
import json
import os
import sys

HERE = os.path.dirname(os.path.dirname(os.path.abspath(__file__)))
sys.path.insert(0, HERE)
from bcverif.props import CONFIG  # noqa: E402

props = [json.loads(l) for l in open(os.path.join(HERE, 'properties.jsonl'))]
checks, na = [], []
for p in props:
    pid = p['id']
    c = CONFIG.get(pid)
    if c is None or c.get('disabled'):
        na.append({'property_id': pid, 'reason': (c or {}).get('disabled', 'check not built yet (work in progress)')})
        continue
    checks.append({
        'property_id': pid,
        'quick_cmd': './check %s --tier quick' % pid,
        'thorough_cmd': './check %s --tier thorough' % pid,
        'evidence_file': 'evidence/%s.json' % pid,
        'replay_cmd_template': './check %s --replay {path}' % pid,
        'engine': 'bcverif',
        'level_claimed': {
            'category': 'exploration',
            'text': c.get('level_text', 'Runtime monitoring: the property held on every monitored execution of the '
                          'real code that the workload produced (counts and classes in the evidence file); '
                          'nothing is claimed about inputs the workload did not drive.'),
            'design_ref': 'DESIGN.md section 3, %s' % pid},
        'level_note': c.get('level_note', 'Trusted: Python/numpy/scipy/pandas/matplotlib, neurodsp filter_signal / '
                            'amp_by_time / detect_bursts_dual_threshold as definitions, the reference models in '
                            'bcverif/refs.py and the generators.'),
        'technique': c.get('technique', 'runtime monitoring: post-condition monitors with reference models on the real functions'),
    })
m = {
    'version': 1,
    'setup_cmd': './setup.sh',
    'hooks': {'guard': 'BYCYCLE_VERIF',
              'enable': 'no source hooks: monitors are bound onto the imported functions from the harness '
                        '(bcverif/attach.py) when BYCYCLE_VERIF=1 (set by ./check); /repo is imported from its working tree',
              'baseline_off_cmd': 'cd /repo && /venv/bin/python -m pytest -ra -q -p no:cacheprovider --timeout=900 '
                                  '--continue-on-collection-errors',
              'source_commits': [], 'add_only': True},
    'engines': [{'name': 'bcverif', 'path': 'bcverif/', 'serves_properties': [c['property_id'] for c in checks],
                 'kind_free_text': 'runtime monitors (icontract / own wrappers), recorders on hooked dependencies, '
                                   'reference models, offline checkers over pool event logs, artist inspector'}],
    'checks': checks,
    'not_applicable': na,
    'notes': 'See DESIGN.md. Exit codes: 0 held on everything observed, 1 VIOLATION, 2 INCONCLUSIVE (monitor not reached / '
             'too few non-trivial cases / watchdog).',
}
json.dump(m, open(os.path.join(HERE, 'MANIFEST.json'), 'w'), indent=1)
print('checks:', len(checks), 'not_applicable:', len(na))
