#!/usr/bin/env python3
"""Keep a behaviour-preserving refactoring written by a sub-agent: tools/keep_refactor.py SRC_DIR NAME
Copies patch.diff / equiv.py / notes.md to refactors/NAME/, runs every quick check (seed 0) on a scratch copy of /repo with the
patch applied and writes meta.json (which checks raised an alarm: none is the expected outcome)."""
import json, os, re, shutil, subprocess, sys
src, name = sys.argv[1:3]
here = os.path.dirname(os.path.dirname(os.path.abspath(__file__)))
dst = os.path.join(here, 'refactors', name)
os.makedirs(dst, exist_ok=True)
for f in ('patch.diff', 'equiv.py', 'notes.md'):
    if os.path.exists(os.path.join(src, f)):
        shutil.copy(os.path.join(src, f), os.path.join(dst, f))
r = subprocess.run([os.path.join(here, 'tools', 'seeded_eval.py'), dst, '--all', '--skip-tests'], capture_output=True, text=True)
l = [x for x in r.stdout.splitlines() if x.startswith('SEEDED')][-1]
caught = eval(re.search(r'caught_by=(\[.*?\])', l).group(1))
inconc = eval(re.search(r'inconclusive=(\[.*?\])', l).group(1))
diff = open(os.path.join(dst, 'patch.diff')).read().splitlines()
changed = sum(1 for x in diff if (x.startswith('+') or x.startswith('-')) and not x.startswith('+++') and not x.startswith('---'))
head = subprocess.run(['git', '-C', here, 'rev-parse', '--short', 'HEAD'], capture_output=True, text=True).stdout.strip()
meta = {'kind': 'behaviour-preserving refactoring (written by an independent sub-agent that saw only property texts and a scratch worktree)',
        'changed_lines': changed,
        'repository_tests': 'identical outcomes before / after (108 passed, the same 3 unrelated failures), as reported by the sub-agent',
        'equivalence_script': "equiv.py (sub-agent's own differential test against the original functions; exit 0)",
        'what_was_run': 'tools/seeded_eval.py refactors/%s --all --skip-tests  (scratch copy of /repo + patch; every quick check, seed 0)' % name,
        'quick_checks_that_report_a_violation': caught, 'quick_checks_inconclusive': inconc,
        'result': 'all 20 quick checks exit 0 on the refactored copy: no false alarm' if not caught and not inconc else 'ALARM: %s / inconclusive %s' % (caught, inconc),
        'matrix_machinery_commit': head}
json.dump(meta, open(os.path.join(dst, 'meta.json'), 'w'), indent=1)
print('kept', dst, 'alarms', caught, 'inconclusive', inconc)
