#!/usr/bin/env python3
"""Keep a confirmed seeded change: tools/keep_seed.py SRC_DIR NAME PROPERTY "needs" "summary" """
import json, os, shutil, subprocess, sys
src, name, prop, needs, summary = sys.argv[1:6]
here = os.path.dirname(os.path.dirname(os.path.abspath(__file__)))
dst = os.path.join(here, 'seeded', name)
os.makedirs(dst, exist_ok=True)
for f in ('patch.diff', 'demo.py', 'notes.md'):
    if os.path.exists(os.path.join(src, f)):
        shutil.copy(os.path.join(src, f), os.path.join(dst, f))
r = subprocess.run([os.path.join(here, 'tools', 'seeded_eval.py'), dst, '--all'], capture_output=True, text=True)
line = [l for l in r.stdout.splitlines() if l.startswith('SEEDED')]
print(r.stdout[-1500:])
caught = missed = inconc = tests = demo = None
if line:
    import re
    l = line[-1]
    tests = re.search(r'tests=(.*?) demo=', l).group(1)
    demo = re.search(r'demo=(.*?) caught_by=', l).group(1)
    caught = eval(re.search(r'caught_by=(\[.*?\])', l).group(1))
    missed = eval(re.search(r'missed_by=(\[.*?\])', l).group(1))
    inconc = eval(re.search(r'inconclusive=(\[.*?\])', l).group(1))
meta = {'property': prop, 'summary': summary, 'needs_to_manifest': needs, 'origin': 'independent sub-agent given only the property text and a scratch worktree',
        'confirmed': {'patch_applies_to_repo_head': subprocess.run(['git', '-C', '/repo', 'rev-parse', '--short', 'HEAD'], capture_output=True, text=True).stdout.strip(),
                      'repository_tests': tests, 'demo': demo},
        'what_was_run': 'tools/seeded_eval.py seeded/%s --all  (scratch copy of /repo + patch; repo test-suite; demo on patched and clean copy; every quick check, seed 0)' % name,
        'quick_checks_that_report_a_violation': caught, 'quick_checks_silent': missed, 'quick_checks_inconclusive': inconc,
        'run_checks': [prop]}
json.dump(meta, open(os.path.join(dst, 'meta.json'), 'w'), indent=1)
print('kept', dst, 'caught_by', caught)
