#!/usr/bin/env python3
"""Break-test helper: copy /repo to a scratch directory, apply one textual mutation (or a patch),
optionally run the 34 baseline tests on it, run the named checks against the copy
(BCVERIF_REPO=<copy>, evidence not written), and remove the copy.

  tools/mutate.py --file bycycle/burst/utils.py --old 'durations < min' --new 'durations <= min' C08
  tools/mutate.py --patch seeded/x/patch.diff --tests C11 C12
"""
import argparse
import json
import os
import shutil
import subprocess
import sys
import tempfile

HERE = os.path.dirname(os.path.dirname(os.path.abspath(__file__)))


def main():
    ap = argparse.ArgumentParser()
    ap.add_argument('--file')
    ap.add_argument('--old')
    ap.add_argument('--new')
    ap.add_argument('--count', type=int, default=1, help='which occurrence (1-based), 0 = all')
    ap.add_argument('--patch')
    ap.add_argument('--tests', action='store_true', help='run the 34 baseline tests on the mutant')
    ap.add_argument('--tier', default='quick')
    ap.add_argument('--seed', default='0')
    ap.add_argument('props', nargs='*')
    a = ap.parse_args()
    tmp = tempfile.mkdtemp(prefix='bcmut_', dir='/tmp')
    dst = os.path.join(tmp, 'repo')
    try:
        subprocess.run(['rsync', '-a', '--exclude', '.git', '--exclude', '__pycache__', '/repo/', dst + '/'],
                       check=True)
        if a.patch:
            r = subprocess.run(['patch', '-p1', '-d', dst, '-i', os.path.abspath(a.patch)],
                               capture_output=True, text=True)
            if r.returncode:
                print('PATCH FAILED', r.stdout, r.stderr)
                return 3
        else:
            p = os.path.join(dst, a.file)
            s = open(p).read()
            n = s.count(a.old)
            if n == 0:
                print('MUTATION SITE NOT FOUND')
                return 3
            if a.count == 0:
                s = s.replace(a.old, a.new)
            else:
                parts = s.split(a.old)
                k = a.count
                s = a.old.join(parts[:k]) + a.new + a.old.join(parts[k:])
            open(p, 'w').write(s)
        if a.tests:
            base = json.load(open('/root/.vp/BASELINE.json'))['stable_pass']
            junit = os.path.join(tmp, 'j.xml')
            p = subprocess.Popen(['/venv/bin/python', '-m', 'pytest', '-q', '-p', 'no:cacheprovider', '--timeout=120',
                                  '--continue-on-collection-errors', '--junitxml=' + junit], cwd=dst,
                                 stdout=subprocess.DEVNULL, stderr=subprocess.DEVNULL,
                                 env=dict(os.environ, PYTHONPATH=dst), start_new_session=True)
            try:
                p.wait(timeout=400)
            except subprocess.TimeoutExpired:
                import signal
                os.killpg(p.pid, signal.SIGKILL)
                print('baseline tests: HANG (killed after 400 s)')
            import xml.etree.ElementTree as ET
            ok = set()
            if os.path.exists(junit):
                for tc in ET.parse(junit).getroot().iter('testcase'):
                    if not list(tc):
                        ok.add('%s::%s' % (tc.get('classname'), tc.get('name')))
            missing = [t for t in base if t not in ok]
            print('baseline tests: %d/%d pass%s' % (len(base) - len(missing), len(base),
                                                    '' if not missing else ' MISSING ' + str(missing[:3])))
        rc_all = {}
        for prop in a.props:
            env = dict(os.environ, BCVERIF_REPO=dst, BCVERIF_NO_EVIDENCE='1', VERIF_SEED=a.seed)
            r = subprocess.run([os.path.join(HERE, 'check'), prop, '--tier', a.tier], env=env,
                               capture_output=True, text=True)
            rc_all[prop] = r.returncode
            lines = [l for l in r.stdout.splitlines() if l.strip()]
            print('--- %s exit=%d' % (prop, r.returncode))
            for l in lines[:6] + (['...'] if len(lines) > 7 else []) + lines[-1:]:
                print('   ', l[:300])
        return 0
    finally:
        shutil.rmtree(tmp, ignore_errors=True)


if __name__ == '__main__':
    sys.exit(main())
