#!/usr/bin/env python3
"""Re-run every kept seeded change (seeded/*/) and every kept benign refactoring (refactors/*/) against all quick checks with the
current machinery and refresh their meta.json (matrix: which checks report a violation).  Exit 1 if a seeded change is not caught by
the check of its own property, or if a refactoring raises any alarm.

  tools/reeval_all.py [--jobs 2] [--only NAME ...] [--own-only]
"""
import argparse
import concurrent.futures as cf
import glob
import json
import os
import re
import subprocess
import sys

HERE = os.path.dirname(os.path.dirname(os.path.abspath(__file__)))


def run(d, own_only):
    meta_p = os.path.join(d, 'meta.json')
    meta = json.load(open(meta_p))
    seeded = 'seeded' in os.path.basename(os.path.dirname(d))
    cmd = [os.path.join(HERE, 'tools', 'seeded_eval.py'), d, '--skip-tests']
    cmd += ['--props', meta['property']] if (own_only and seeded) else ['--all']
    r = subprocess.run(cmd, capture_output=True, text=True)
    line = [l for l in r.stdout.splitlines() if l.startswith('SEEDED')]
    if not line:
        return d, None, r.stdout[-500:]
    l = line[-1]
    caught = eval(re.search(r'caught_by=(\[.*?\])', l).group(1))
    missed = eval(re.search(r'missed_by=(\[.*?\])', l).group(1))
    inconc = eval(re.search(r'inconclusive=(\[.*?\])', l).group(1))
    if not own_only:
        meta['quick_checks_that_report_a_violation'] = caught
        meta['quick_checks_inconclusive'] = inconc
        if seeded:
            meta['quick_checks_silent'] = missed
        m = re.search(r'demo=(.*?) caught_by=', l)
        if seeded and m:
            meta.setdefault('confirmed', {})['demo'] = m.group(1)
        meta['matrix_machinery_commit'] = subprocess.run(['git', '-C', HERE, 'rev-parse', '--short', 'HEAD'], capture_output=True, text=True).stdout.strip()
        json.dump(meta, open(meta_p, 'w'), indent=1)
    return d, (caught, inconc), ''


def main():
    ap = argparse.ArgumentParser()
    ap.add_argument('--jobs', type=int, default=2)
    ap.add_argument('--only', nargs='*')
    ap.add_argument('--own-only', action='store_true')
    a = ap.parse_args()
    dirs = sorted(glob.glob(os.path.join(HERE, 'seeded', '*'))) + sorted(glob.glob(os.path.join(HERE, 'refactors', '*')))
    dirs = [d for d in dirs if os.path.exists(os.path.join(d, 'meta.json')) and (not a.only or os.path.basename(d) in a.only)]
    bad = 0
    with cf.ThreadPoolExecutor(a.jobs) as ex:
        for d, res, err in ex.map(lambda d: run(d, a.own_only), dirs):
            name = os.path.basename(d)
            if res is None:
                print('%-55s ERROR %s' % (name, err))
                bad += 1
                continue
            caught, inconc = res
            meta = json.load(open(os.path.join(d, 'meta.json')))
            if 'refactors' in d:
                ok = not caught and not inconc
                print('%-55s %s  alarms=%s inconclusive=%s' % (name, 'silent (ok)' if ok else 'FALSE ALARM', caught, inconc), flush=True)
            else:
                ok = meta['property'] in caught
                print('%-55s %s  caught_by=%s' % (name, 'caught' if ok else 'MISSED BY OWN CHECK', caught), flush=True)
            bad += 0 if ok else 1
    print('problems: %d' % bad)
    return 1 if bad else 0


if __name__ == '__main__':
    sys.exit(main())
