#!/usr/bin/env python3
"""Evaluate a seeded breaking change: /verif/seeded/<id>/ or any directory holding patch.diff (+ demo.py).

  tools/seeded_eval.py DIR [--props C05 C16 ...] [--all] [--tier quick] [--seeds 0 1] [--skip-tests]

Steps (all on scratch copies of /repo under /tmp, removed afterwards; /repo is never touched):
  1. copy /repo, apply patch.diff (must apply cleanly);
  2. run the repository's test-suite on the patched copy and compare with BASELINE.json's stable_pass list;
  3. run demo.py against the patched copy (expected exit 1) and against a clean copy (expected exit 0);
  4. run the named checks against the patched copy (BCVERIF_REPO=<copy>, evidence not written).
Prints one machine-readable summary line `SEEDED <dir> tests=<ok|N missing> demo=<ok|...> caught_by=[...] missed_by=[...]`.
"""
import argparse
import json
import os
import shutil
import signal
import subprocess
import sys
import tempfile
import xml.etree.ElementTree as ET

HERE = os.path.dirname(os.path.dirname(os.path.abspath(__file__)))
ALL = ['C%02d' % i for i in range(1, 21)]


def copy_repo(dst):
    subprocess.run(['rsync', '-a', '--exclude', '.git', '--exclude', '__pycache__', '--exclude', 'test_files', '/repo/', dst + '/'], check=True)
    os.makedirs(os.path.join(dst, 'bycycle', 'tests', 'test_files'), exist_ok=True)


def main():
    ap = argparse.ArgumentParser()
    ap.add_argument('dir')
    ap.add_argument('--props', nargs='*', default=None)
    ap.add_argument('--all', action='store_true')
    ap.add_argument('--tier', default='quick')
    ap.add_argument('--seeds', nargs='*', default=['0'])
    ap.add_argument('--skip-tests', action='store_true')
    a = ap.parse_args()
    d = os.path.abspath(a.dir)
    patch = os.path.join(d, 'patch.diff')
    demo = os.path.join(d, 'demo.py')
    meta = {}
    if os.path.exists(os.path.join(d, 'meta.json')):
        meta = json.load(open(os.path.join(d, 'meta.json')))
    props = ALL if a.all else (a.props or meta.get('run_checks') or [meta.get('property')] if (a.props or meta) else ALL)
    props = [p for p in props if p]
    tmp = tempfile.mkdtemp(prefix='bcseed_', dir='/tmp')
    bad, clean = os.path.join(tmp, 'patched'), os.path.join(tmp, 'clean')
    res = {'tests': 'skipped', 'demo': 'skipped', 'caught_by': [], 'missed_by': [], 'inconclusive': []}
    try:
        copy_repo(bad)
        r = subprocess.run(['patch', '-p1', '--no-backup-if-mismatch', '-d', bad, '-i', patch], capture_output=True, text=True)
        if r.returncode:
            print('PATCH FAILED\n', r.stdout, r.stderr)
            return 3
        if not a.skip_tests:
            base = json.load(open('/root/.vp/BASELINE.json'))['stable_pass']
            junit = os.path.join(tmp, 'j.xml')
            p = subprocess.Popen(['/venv/bin/python', '-m', 'pytest', '-q', '-p', 'no:cacheprovider', '--timeout=120',
                                  '--continue-on-collection-errors', '--junitxml=' + junit], cwd=bad, stdout=subprocess.DEVNULL,
                                 stderr=subprocess.DEVNULL, env=dict(os.environ, PYTHONPATH=bad), start_new_session=True)
            try:
                p.wait(timeout=600)
            except subprocess.TimeoutExpired:
                os.killpg(p.pid, signal.SIGKILL)
            ok = set()
            npass = 0
            if os.path.exists(junit):
                for tc in ET.parse(junit).getroot().iter('testcase'):
                    if not [c for c in tc if c.tag in ('failure', 'error', 'skipped')]:
                        ok.add('%s::%s' % (tc.get('classname'), tc.get('name')))
                        npass += 1
            missing = [t for t in base if t not in ok]
            res['tests'] = 'ok(34/34 baseline, %d passing in total)' % npass if not missing else '%d baseline tests missing: %s' % (len(missing), missing[:2])
        if os.path.exists(demo):
            copy_repo(clean)
            rb = subprocess.run(['/venv/bin/python', demo], cwd=d, capture_output=True, text=True, env=dict(os.environ, PYTHONPATH=bad, MPLBACKEND='Agg'), timeout=900)
            rc = subprocess.run(['/venv/bin/python', demo], cwd=d, capture_output=True, text=True, env=dict(os.environ, PYTHONPATH=clean, MPLBACKEND='Agg'), timeout=900)
            res['demo'] = 'ok(patched exit %d, clean exit %d)' % (rb.returncode, rc.returncode) if (rb.returncode != 0 and rc.returncode == 0) \
                else 'UNEXPECTED(patched exit %d, clean exit %d)' % (rb.returncode, rc.returncode)
            tail = (rb.stdout + rb.stderr).strip().splitlines()[-3:]
            print('demo on patched copy:', *tail, sep='\n    ')
        for prop in props:
            codes = []
            first_lines = []
            for seed in a.seeds:
                env = dict(os.environ, BCVERIF_REPO=bad, BCVERIF_NO_EVIDENCE='1', VERIF_SEED=str(seed))
                r = subprocess.run([os.path.join(HERE, 'check'), prop, '--tier', a.tier], env=env, capture_output=True, text=True)
                codes.append(r.returncode)
                if r.returncode == 1 and not first_lines:
                    first_lines = [l for l in r.stdout.splitlines() if 'mechanism=' in l][:2]
            if 1 in codes:
                res['caught_by'].append(prop)
                print('--- %s CAUGHT (exit codes %s)' % (prop, codes))
                for l in first_lines:
                    print('     ', l.strip()[:330])
            elif 2 in codes:
                res['inconclusive'].append(prop)
                print('--- %s inconclusive (exit codes %s)' % (prop, codes))
            else:
                res['missed_by'].append(prop)
                print('--- %s silent (exit codes %s)' % (prop, codes))
        print('SEEDED %s tests=%s demo=%s caught_by=%s missed_by=%s inconclusive=%s'
              % (os.path.basename(d), res['tests'], res['demo'], res['caught_by'], res['missed_by'], res['inconclusive']))
        return 0
    finally:
        shutil.rmtree(tmp, ignore_errors=True)


if __name__ == '__main__':
    sys.exit(main())
